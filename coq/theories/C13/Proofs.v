(* C13/Proofs.v *)
From FV Require Import Base.Str Base.Lines Base.LinesFacts C13.Model.

Lemma no_break_line_eq l : no_break_line l = no_break l.
Proof. reflexivity. Qed.

Lemma lrun_app' s a b : lrun s (a ++ b) = lrun (lrun s a) b.
Proof. apply lrun_app. Qed.

(* one line followed by its terminator *)
Lemma run_lf l rest d cur : no_break l = true ->
  lrun (LS d cur false) (l ++ T_LF ++ rest) = lrun (LS (d ++ [cur ++ l]) [] false) rest.
Proof.
  intro H. rewrite lrun_app', (lrun_no_break l d cur false H). unfold T_LF. cbn [app].
  unfold lrun at 1. cbn [fold_left]. unfold lstep at 2. cbn [ls_cr ls_done ls_cur]. rewrite N.eqb_refl.
  destruct l; reflexivity.
Qed.

Lemma run_crlf l rest d cur : no_break l = true ->
  lrun (LS d cur false) (l ++ T_CRLF ++ rest) = lrun (LS (d ++ [cur ++ l]) [] false) rest.
Proof.
  intro H. rewrite lrun_app', (lrun_no_break l d cur false H). unfold T_CRLF. cbn [app].
  unfold lrun at 1. cbn [fold_left]. unfold lstep at 3. cbn [ls_cr ls_done ls_cur].
  change (N.eqb CR LF) with false. rewrite N.eqb_refl. cbv iota.
  unfold lstep at 2. cbn [ls_cr ls_done ls_cur]. rewrite N.eqb_refl. reflexivity.
Qed.

Lemma run_cr l rest d cur cr : no_break l = true ->
  lrun (LS d cur cr) (l ++ T_CR ++ rest) = lrun (LS (d ++ [cur ++ l]) [] true) rest.
Proof.
  intro H. rewrite lrun_app', (lrun_no_break l d cur cr H). unfold T_CR. cbn [app].
  unfold lrun at 1. cbn [fold_left]. unfold lstep at 2. cbn [ls_cr ls_done ls_cur].
  change (N.eqb CR LF) with false. rewrite N.eqb_refl. reflexivity.
Qed.

Lemma join_cons term l x r : join term (l :: x :: r) = l ++ term ++ join term (x :: r).
Proof. reflexivity. Qed.

Lemma split_join_lf ls : forall d, ls <> [] -> Forall (fun l => no_break l = true) ls ->
  lfinish (lrun (LS d [] false) (join T_LF ls)) = d ++ ls.
Proof.
  induction ls as [|l r IH]; intros d Hne Hf; [congruence|].
  inversion Hf as [|? ? Hl Hr]; subst. destruct r as [|x r].
  - cbn [join]. rewrite (lrun_no_break l d [] false Hl). unfold lfinish. cbn. reflexivity.
  - rewrite join_cons, run_lf by exact Hl. cbn [app]. rewrite IH by (discriminate || assumption).
    now rewrite <- app_assoc.
Qed.

Lemma split_join_crlf ls : forall d, ls <> [] -> Forall (fun l => no_break l = true) ls ->
  lfinish (lrun (LS d [] false) (join T_CRLF ls)) = d ++ ls.
Proof.
  induction ls as [|l r IH]; intros d Hne Hf; [congruence|].
  inversion Hf as [|? ? Hl Hr]; subst. destruct r as [|x r].
  - cbn [join]. rewrite (lrun_no_break l d [] false Hl). unfold lfinish. cbn. reflexivity.
  - rewrite join_cons, run_crlf by exact Hl. cbn [app]. rewrite IH by (discriminate || assumption).
    now rewrite <- app_assoc.
Qed.

Lemma split_join_cr ls : forall d cr, ls <> [] -> Forall (fun l => no_break l = true) ls ->
  lfinish (lrun (LS d [] cr) (join T_CR ls)) = d ++ ls.
Proof.
  induction ls as [|l r IH]; intros d cr Hne Hf; [congruence|].
  inversion Hf as [|? ? Hl Hr]; subst. destruct r as [|x r].
  - cbn [join]. rewrite (lrun_no_break l d [] cr Hl). unfold lfinish. cbn. reflexivity.
  - rewrite join_cons, run_cr by exact Hl. cbn [app]. rewrite IH by (discriminate || assumption).
    now rewrite <- app_assoc.
Qed.

Lemma splitlines_join term ls : ls <> [] -> Forall (fun l => no_break l = true) ls ->
  term = T_LF \/ term = T_CRLF \/ term = T_CR -> splitlines (join term ls) = ls.
Proof.
  intros Hne Hf [->|[->| ->]]; unfold splitlines, linit.
  - now rewrite split_join_lf.
  - now rewrite split_join_crlf.
  - now rewrite split_join_cr.
Qed.

Lemma nth_error_skipn {A} (l : list A) : forall n j, nth_error (skipn n l) j = nth_error l (n + j).
Proof.
  induction l as [|x l IH]; intros [|n] j; cbn; try reflexivity; [destruct j; reflexivity|apply IH].
Qed.

Lemma nth_error_firstn_lt {A} (l : list A) : forall n i, i < n -> nth_error (firstn n l) i = nth_error l i.
Proof.
  induction l as [|x l IH]; intros [|n] [|i] H; cbn; try lia; try reflexivity. apply IH. lia.
Qed.

(* blank lines inserted above line n shift every later line by exactly k *)
Lemma insert_blank_nth ls n k i : n <= length ls ->
  nth_error (insert_blank ls n k) (shift n k i) = nth_error ls i.
Proof.
  intro Hn. unfold insert_blank, shift. destruct (i <? n) eqn:E.
  - apply Nat.ltb_lt in E. rewrite nth_error_app1 by (rewrite firstn_length; lia).
    now apply nth_error_firstn_lt.
  - apply Nat.ltb_ge in E. rewrite nth_error_app2 by (rewrite firstn_length; lia). rewrite firstn_length, Nat.min_l by lia.
    rewrite nth_error_app2 by (rewrite repeat_length; lia). rewrite repeat_length.
    rewrite nth_error_skipn. f_equal. lia.
Qed.

Lemma find_bang_app c w : has_quote_or_bang c = false -> find_bang (c ++ 33%N :: w) = Some (length c).
Proof.
  induction c as [|x c IH]; intro H; [reflexivity|].
  cbn in H. apply orb_false_iff in H as [H1 H2]. apply orb_false_iff in H1 as [H1 _]. apply orb_false_iff in H1 as [H1 _].
  cbn [app find_bang]. rewrite H1. rewrite IH by exact H2. reflexivity.
Qed.

Lemma cut_comment_added c w : has_quote_or_bang c = false -> cut_comment (c ++ 33%N :: w) = c.
Proof.
  intro H. unfold cut_comment. rewrite find_bang_app by exact H.
  rewrite firstn_app, Nat.sub_diag, firstn_all. cbn. apply app_nil_r.
Qed.
