(* C13/Semi.v -- statements joined by a semicolon (FortranFile.parse, fortls/parsers/internal/parser.py): the logical line is
   copied with its character literals blanked (helper_functions.strip_strings, maintain_len), a trailing comment is cut at
   the first exclamation mark of that copy, and the statements are cut out of the line at the semicolons of that copy.
   Model and proofs; tie: harness/props/c13.py check_semicolon (strip_strings itself and the pieces parse() pushes on its
   stack, recorded on generated lines). *)
From Coq Require Import Lia.
From FV Require Import Base.Str.

Definition QS : char := 39%N.   (* apostrophe *)
Definition QD : char := 34%N.   (* double quote *)
Definition SEMI : char := 59%N.
Definition BANG : char := 33%N.
Definition is_quote (c : char) : bool := N.eqb c QS || N.eqb c QD.

Fixpoint has (q : char) (s : str) : bool := match s with [] => false | c :: r => N.eqb c q || has q r end.

(* STRING.sub(repl): literals are recognised left to right; a quote opens a literal only when the same quote occurs again
   further on, the characters between the two are blanked and both quotes are kept.  st = the quote of the literal being read. *)
Fixpoint strip (st : option char) (s : str) : str :=
  match s with
  | [] => []
  | c :: r =>
    match st with
    | Some q => if N.eqb c q then c :: strip None r else 32%N :: strip (Some q) r
    | None => if is_quote c && has c r then c :: strip (Some c) r else c :: strip None r
    end
  end.

Definition strip_strings (s : str) : str := strip None s.

(* m = the blanked copy, s = the line, cur = the statement being collected, reversed.  The comment cut is folded in: the scan
   stops at the first exclamation mark of the copy. *)
Fixpoint cut (m s cur : str) : list str :=
  match m, s with
  | mc :: m', c :: s' =>
    if N.eqb mc BANG then [rev cur]
    else if N.eqb mc SEMI then rev cur :: cut m' s' []
    else cut m' s' (c :: cur)
  | _, _ => [rev cur]
  end.

Definition statements (line : str) : list str := cut (strip_strings line) line [].

(* the rule of the pinned revision: the blanked copy itself is split *)
Definition statements_pinned (line : str) : list str := let m := strip_strings line in cut m m [].

(* a statement: every literal is closed, no semicolon and no exclamation mark outside literals *)
Fixpoint wf (st : option char) (s : str) : bool :=
  match s with
  | [] => match st with None => true | Some _ => false end
  | c :: r =>
    match st with
    | Some q => if N.eqb c q then wf None r else wf (Some q) r
    | None => if is_quote c then wf (Some c) r else negb (N.eqb c SEMI) && negb (N.eqb c BANG) && wf None r
    end
  end.

Definition statement (s : str) : bool := wf None s.

Fixpoint join_semi (ss : list str) : str :=
  match ss with
  | [] => []
  | [s] => s
  | s :: rest => s ++ SEMI :: join_semi rest
  end.

(* ---------- proofs ---------- *)

Lemma strip_length st s : length (strip st s) = length s.
Proof.
  revert st; induction s as [|c r IH]; intros st; simpl; [reflexivity|].
  destruct st as [q|].
  - destruct (N.eqb c q); simpl; rewrite IH; reflexivity.
  - destruct (is_quote c && has c r); simpl; rewrite IH; reflexivity.
Qed.

Lemma has_app q a b : has q (a ++ b) = has q a || has q b.
Proof. induction a as [|c a IH]; simpl; [reflexivity|]. rewrite IH. apply orb_assoc. Qed.

Lemma wf_closes q r : wf (Some q) r = true -> has q r = true.
Proof.
  induction r as [|c r IH]; simpl; [discriminate|].
  destruct (N.eqb c q); simpl; [reflexivity|]. exact IH.
Qed.

Definition st_ok (st : option char) : Prop := match st with Some q => is_quote q = true | None => True end.

Lemma quote_not_sep c : is_quote c = true -> N.eqb c SEMI = false /\ N.eqb c BANG = false.
Proof.
  unfold is_quote, QS, QD, SEMI, BANG. intros H. apply orb_true_iff in H as [H|H]; apply N.eqb_eq in H; subst c; split; reflexivity.
Qed.

(* a well-formed statement goes into the piece being collected whole, whatever follows it *)
Lemma cut_statement s : forall st t cur, st_ok st -> wf st s = true ->
  cut (strip st (s ++ t)) (s ++ t) cur = cut (strip None t) t (rev s ++ cur).
Proof.
  induction s as [|c r IH]; intros st t cur Hok Hwf.
  - simpl in Hwf. destruct st; [discriminate|]. reflexivity.
  - simpl in Hwf. cbn [app strip]. destruct st as [q|].
    + destruct (N.eqb c q) eqn:E.
      * apply N.eqb_eq in E. subst q. cbn [cut]. destruct (quote_not_sep c Hok) as [H1 H2]. rewrite H1, H2.
        rewrite (IH None t (c :: cur) I Hwf). cbn [rev]. rewrite <- app_assoc. reflexivity.
      * cbn [cut]. change (N.eqb 32 BANG) with false. change (N.eqb 32 SEMI) with false. cbv iota.
        rewrite (IH (Some q) t (c :: cur) Hok Hwf). cbn [rev]. rewrite <- app_assoc. reflexivity.
    + destruct (is_quote c) eqn:Q.
      * assert (Hh : has c (r ++ t) = true) by (rewrite has_app, (wf_closes _ _ Hwf); reflexivity).
        rewrite Hh. cbn [andb cut]. destruct (quote_not_sep c Q) as [H1 H2]. rewrite H1, H2.
        rewrite (IH (Some c) t (c :: cur) Q Hwf). cbn [rev]. rewrite <- app_assoc. reflexivity.
      * cbn [andb cut]. apply andb_true_iff in Hwf as [Hwf H3]. apply andb_true_iff in Hwf as [H1 H2].
        apply negb_true_iff in H1, H2. rewrite H1, H2.
        rewrite (IH None t (c :: cur) I H3). cbn [rev]. rewrite <- app_assoc. reflexivity.
Qed.

Lemma cut_end_comment t cur : cut (strip None (BANG :: t)) (BANG :: t) cur = [rev cur].
Proof. cbn [strip]. change (is_quote BANG) with false. cbn [andb cut]. rewrite N.eqb_refl. reflexivity. Qed.

(* trailer: nothing, or a comment *)
Definition trailer (t : str) : Prop := t = [] \/ exists r, t = BANG :: r.

Lemma cut_trailer t cur : trailer t -> cut (strip None t) t cur = [rev cur].
Proof. intros [->|[r ->]]; [reflexivity | apply cut_end_comment]. Qed.

Lemma cut_semi t cur : cut (strip None (SEMI :: t)) (SEMI :: t) cur = rev cur :: cut (strip None t) t [].
Proof. cbn [strip]. change (is_quote SEMI) with false. cbn [andb cut]. change (N.eqb SEMI BANG) with false. rewrite N.eqb_refl. reflexivity. Qed.

Lemma join_semi_cons s s' rest : join_semi (s :: s' :: rest) = s ++ SEMI :: join_semi (s' :: rest).
Proof. reflexivity. Qed.

Lemma cut_join ss : forall t, ss <> [] -> Forall (fun s => statement s = true) ss -> trailer t ->
  cut (strip None (join_semi ss ++ t)) (join_semi ss ++ t) [] = ss.
Proof.
  induction ss as [|s rest IH]; intros t Hne Hall Ht; [congruence|].
  inversion Hall as [|x l Hs Hrest]; subst.
  destruct rest as [|s' rest].
  - cbn [join_semi]. rewrite (cut_statement s None t [] I Hs). rewrite app_nil_r, (cut_trailer _ _ Ht), rev_involutive. reflexivity.
  - rewrite join_semi_cons, <- app_assoc. cbn [app].
    rewrite (cut_statement s None _ [] I Hs). rewrite app_nil_r, cut_semi, rev_involutive.
    f_equal. apply IH; [discriminate | exact Hrest | exact Ht].
Qed.

(* Joining statements with semicolons, with or without a comment behind the last one, and reading the line back gives the
   statements, literals included. *)
Theorem semicolon_round_trip ss t : ss <> [] -> Forall (fun s => statement s = true) ss -> trailer t ->
  statements (join_semi ss ++ t) = ss.
Proof. intros. unfold statements, strip_strings. apply cut_join; assumption. Qed.

(* a single statement is not cut at all *)
Corollary single_statement s t : statement s = true -> trailer t -> statements (s ++ t) = [s].
Proof. intros Hs Ht. apply (semicolon_round_trip [s] t); [discriminate | constructor; [exact Hs | constructor] | exact Ht]. Qed.

(* the pinned rule loses the contents of literals: x = 'a;c' ; y *)
Definition witness_line : str := [120; 61; 39; 97; 59; 99; 39; 59; 121]%N.
Definition witness_statements : list str := [[120; 61; 39; 97; 59; 99; 39]; [121]]%N.

Lemma pinned_refuted : Forall (fun s => statement s = true) witness_statements /\ join_semi witness_statements = witness_line /\
  statements_pinned witness_line <> witness_statements /\ statements witness_line = witness_statements.
Proof.
  split; [repeat constructor|]. split; [reflexivity|]. split; [|vm_compute; reflexivity].
  vm_compute. intros H. discriminate H.
Qed.

Example semicolon_nonvacuous : exists ss, length ss = 3 /\ Forall (fun s => statement s = true) ss /\ existsb (has SEMI) ss = true /\ existsb (has BANG) ss = true.
Proof.
  exists [[97; 61; 39; 59; 33; 39]; [98]; [99; 61; 34; 39; 34]]%N. split; [reflexivity|]. split; [repeat constructor|]. split; reflexivity.
Qed.
