(* C18/Proofs.v *)
From FV Require Import Base.Str C18.Model.

Lemma path_eqb_eq a b : path_eqb a b = true <-> a = b.
Proof. apply list_eqb_eq. apply str_eqb_eq. Qed.

Lemma kind_eqb_eq a b : kind_eqb a b = true <-> a = b.
Proof. destruct a, b; cbn; split; congruence. Qed.

Lemma pmem_In p l : pmem p l = true <-> In p l.
Proof.
  induction l as [|q l IH]; cbn [pmem In]; [split; [discriminate|tauto]|].
  rewrite orb_true_iff, path_eqb_eq, IH. split; intros [H|H]; auto.
Qed.

Lemma pmem_false p l : pmem p l = false <-> ~ In p l.
Proof. rewrite <- pmem_In. destruct (pmem p l); split; congruence. Qed.

Lemma has_In t p k : has t p k = true <-> In (p, k) t.
Proof.
  unfold has. rewrite existsb_exists. split.
  - intros [[q k'] [Hin H]]. cbn in H. apply andb_true_iff in H as [H1 H2].
    apply path_eqb_eq in H1. apply kind_eqb_eq in H2. now subst.
  - intro H. exists (p, k). split; [exact H|]. cbn. apply andb_true_iff. split; [now apply path_eqb_eq|now apply kind_eqb_eq].
Qed.

Lemma is_dir_Dir t p : wf_fs t -> is_dir t p = true <-> Dir t p.
Proof.
  intro W. unfold is_dir, Dir, In_fs. destruct p as [|x p].
  - split; auto.
  - rewrite has_In. split; [auto|]. intros [H|H]; [discriminate|exact H].
Qed.

Lemma snoc_parts (p : path) : p <> [] -> p = parent p ++ [name p].
Proof. intro H. unfold parent, name. now apply app_removelast_last. Qed.

Lemma listdir_In t d n : wf_fs t ->
  In n (listdir t d) <-> n <> [] /\ exists k, In (d ++ [n], k) t.
Proof.
  intro W. unfold listdir. rewrite in_map_iff. split.
  - intros [[p k] [Hn Hin]]. cbn [fst] in Hn. apply filter_In in Hin as [Hin Hf]. cbn [fst] in Hf.
    destruct (W p k Hin) as [Hp Hname].
    destruct p as [|x p']; [discriminate|]. apply path_eqb_eq in Hf.
    subst n d. split; [exact Hname|]. exists k. now rewrite <- snoc_parts.
  - intros [Hn [k Hin]]. exists (d ++ [n], k). cbn [fst]. split.
    + unfold name. now rewrite last_last.
    + apply filter_In. split; [exact Hin|]. cbn [fst].
      destruct (d ++ [n]) eqn:E; [destruct d; discriminate|]. rewrite <- E.
      apply path_eqb_eq. unfold parent. now rewrite removelast_last.
Qed.

Lemma all_dirs_In t d : In d (all_dirs t) <-> Dir t d.
Proof.
  unfold all_dirs, Dir, In_fs. cbn [In]. rewrite in_map_iff. split.
  - intros [H|[[p k] [H1 H2]]]; [now left|]. apply filter_In in H2 as [H2 H3]. cbn in *.
    apply kind_eqb_eq in H3. subst. now right.
  - intros [H|H]; [now left|]. right. exists (d, KD). split; [reflexivity|].
    apply filter_In. split; [exact H|reflexivity].
Qed.

Lemma dedup_In p l : In p (dedup l) <-> In p l.
Proof.
  induction l as [|q l IH]; cbn [dedup In]; [tauto|].
  destruct (pmem q l) eqn:E.
  - rewrite IH. split; [auto|]. intros [H|H]; [subst; now apply pmem_In|exact H].
  - cbn [In]. now rewrite IH.
Qed.

Lemma excl_In c p : In p (excl c) <-> excluded c p.
Proof. unfold excl, excluded. rewrite in_concat. split; intros [l [H1 H2]]; exists l; auto. Qed.

Lemma has_src_spec t c d : wf_fs t -> has_src t c d = true <-> Has_src t c d.
Proof.
  intro W. unfold has_src, Has_src, In_fs. rewrite existsb_exists. split.
  - intros [n [Hin H]]. apply andb_true_iff in H as [H1 H2]. apply listdir_In in Hin as [Hn _]; [|exact W].
    exists n. repeat split; auto. now apply has_In.
  - intros [n [Hn [Hf Hs]]]. exists n. split.
    + apply listdir_In; [exact W|]. split; [exact Hn|now exists KF].
    + apply andb_true_iff. split; [now apply has_In|exact Hs].
Qed.

Lemma resolved_In t c d : wf_fs t ->
  In d (resolved_dirs t c) <->
  (exists l, In l (match c_source c with [] => [[[]]] | x => x end) /\ In d l) /\ Dir t d /\ ~ excluded c d.
Proof.
  intro W. unfold resolved_dirs. rewrite filter_In, dedup_In, filter_In.
  rewrite negb_true_iff, pmem_false, excl_In, (is_dir_Dir t d W).
  assert (E : In d (match c_source c with [] => [[]] | l => concat l end) <->
              exists l, In l (match c_source c with [] => [[[]]] | x => x end) /\ In d l).
  { destruct (c_source c) as [|a r].
    - cbn. split.
      + intros [H|[]]. exists [[]]. split; [now left|]. subst. now left.
      + intros [l [[H|[]] H2]]. subst. exact H2.
    - rewrite in_concat. split; intros [l [H1 H2]]; exists l; auto. }
  rewrite E. tauto.
Qed.

Lemma source_dirs_In t c d : wf_fs t -> In d (source_dirs t c) <-> Source_dir t c d.
Proof.
  intro W. unfold source_dirs, Source_dir.
  pose proof (resolved_In t c d W) as R.
  destruct (resolved_dirs t c) as [|[|x0 d0] [|d1 r]] eqn:E; try exact R.
  (* exactly the root: recursive default *)
  rewrite filter_In, all_dirs_In, andb_true_iff, (has_src_spec t c d W), negb_true_iff, pmem_false, excl_In. tauto.
Qed.

Lemma file_ok_spec t c d n :
  file_ok t c d n = true <->
  In_fs t (d ++ [n]) KF /\ c_suffix_ok c n = true /\ ~ excluded c (d ++ [n]) /\
  (forall e, In e (c_excl_suf c) -> suffixb e n = false).
Proof.
  unfold file_ok, is_file, In_fs. rewrite !andb_true_iff, has_In, !negb_true_iff, pmem_false, excl_In.
  assert (E : existsb (fun e => suffixb e n) (c_excl_suf c) = false <-> forall e, In e (c_excl_suf c) -> suffixb e n = false).
  { split.
    - intros H e He. destruct (suffixb e n) eqn:E2; [|reflexivity].
      assert (existsb (fun e => suffixb e n) (c_excl_suf c) = true) by (apply existsb_exists; eauto). congruence.
    - intro H. destruct (existsb (fun e => suffixb e n) (c_excl_suf c)) eqn:E2; [|reflexivity].
      apply existsb_exists in E2 as [e [He Hs]]. rewrite (H e He) in Hs. discriminate. }
  rewrite E. tauto.
Qed.

Theorem discover_spec t c p : wf_fs t -> In p (discover t c) <-> Spec t c p.
Proof.
  intro W. unfold discover, Spec. rewrite in_flat_map. split.
  - intros [d [Hd Hp]]. apply in_map_iff in Hp as [n [Hn Hf]]. apply filter_In in Hf as [Hl Hok].
    apply listdir_In in Hl as [Hne _]; [|exact W].
    apply file_ok_spec in Hok as [H1 [H2 [H3 H4]]].
    exists d, n. subst p. repeat split; auto. now apply source_dirs_In.
  - intros [d [n [Hp [Hne [Hs [Hf [Hsuf [Hex Hes]]]]]]]]. exists d. split; [now apply source_dirs_In|].
    apply in_map_iff. exists n. split; [now symmetry|]. apply filter_In. split.
    + apply listdir_In; [exact W|]. split; [exact Hne|]. exists KF. now subst.
    + apply file_ok_spec. subst p. auto.
Qed.

(* endswith *)
Lemma suffixb_spec suf s : suffixb suf s = true <-> exists pre, s = pre ++ suf.
Proof.
  induction s as [|c s IH]; cbn [suffixb].
  - rewrite orb_false_r, str_eqb_eq. split; [intros ->; now exists []|].
    intros [pre H]. symmetry in H. apply app_eq_nil in H as [_ H]. now subst.
  - rewrite orb_true_iff, str_eqb_eq, IH. split.
    + intros [->|[pre ->]]; [now exists []|now exists (c :: pre)].
    + intros [[|x pre] H]; [left; now cbn in H|]. right. cbn in H. inversion H; subst. now exists pre.
Qed.
