(* C18/Model.v -- which files are indexed at start-up: LangServer.serve_initialize ->
   _load_config_file_dirs, _resolve_globs_in_paths, _add_source_dirs, _get_source_files,
   over an abstract directory tree.  Definitions only. *)
From FV Require Import Base.Str.

Definition path := list str.            (* names below the root; [] is the root itself *)
Inductive kind := KF | KD.
Definition fs := list (path * kind).

Definition path_eqb (a b : path) : bool := list_eqb str_eqb a b.
Definition kind_eqb (a b : kind) : bool := match a, b with KF, KF | KD, KD => true | _, _ => false end.
Fixpoint pmem (p : path) (l : list path) : bool :=
  match l with [] => false | q :: r => path_eqb p q || pmem p r end.

Definition has (t : fs) (p : path) (k : kind) : bool :=
  existsb (fun e => path_eqb (fst e) p && kind_eqb (snd e) k) t.
Definition is_file (t : fs) (p : path) : bool := has t p KF.
Definition is_dir (t : fs) (p : path) : bool := match p with [] => true | _ => has t p KD end.

Definition parent (p : path) : path := removelast p.
Definition name (p : path) : str := last p [].

(* os.listdir(d) *)
Definition listdir (t : fs) (d : path) : list str :=
  map (fun e => name (fst e))
      (filter (fun e => match fst e with [] => false | _ => path_eqb (parent (fst e)) d end) t).

(* os.walk(root): the root and every directory below it *)
Definition all_dirs (t : fs) : list path :=
  [] :: map fst (filter (fun e => kind_eqb (snd e) KD) t).

Fixpoint suffixb (suf s : str) : bool :=
  (* s.endswith(suf) *)
  str_eqb suf s || match s with [] => false | _ :: r => suffixb suf r end.

Record cfg := {
  c_source : list (list path);     (* each configured source_dirs entry, glob-expanded (existing paths) *)
  c_excl : list (list path);       (* each excl_paths entry, glob-expanded *)
  c_excl_suf : list str;
  c_suffix_ok : str -> bool        (* FORTRAN_SRC_EXT_REGEX.search(name): default + incl_suffixes *)
}.

Fixpoint dedup (l : list path) : list path :=
  match l with [] => [] | p :: r => if pmem p r then dedup r else p :: dedup r end.

Definition excl (c : cfg) : list path := concat (c_excl c).

(* a directory holds at least one file name accepted by the suffix pattern (os.walk's `files`) *)
Definition has_src (t : fs) (c : cfg) (d : path) : bool :=
  existsb (fun n => is_file t (d ++ [n]) && c_suffix_ok c n) (listdir t d).

(* source_dirs after _resolve_globs_in_paths (root added first when nothing is configured) *)
Definition resolved_dirs (t : fs) (c : cfg) : list path :=
  let raw := match c_source c with [] => [[]] | l => concat l end in
  filter (fun d => negb (pmem d (excl c))) (dedup (filter (is_dir t) raw)).

(* _add_source_dirs *)
Definition source_dirs (t : fs) (c : cfg) : list path :=
  match resolved_dirs t c with
  | [[]] => filter (fun d => has_src t c d && negb (pmem d (excl c))) (all_dirs t)
  | l => l
  end.

Definition file_ok (t : fs) (c : cfg) (d : path) (n : str) : bool :=
  is_file t (d ++ [n]) && c_suffix_ok c n && negb (pmem (d ++ [n]) (excl c))
  && negb (existsb (fun e => suffixb e n) (c_excl_suf c)).

(* _get_source_files *)
Definition discover (t : fs) (c : cfg) : list path :=
  flat_map (fun d => map (fun n => d ++ [n]) (filter (file_ok t c d) (listdir t d))) (source_dirs t c).

(* ---- specification, in the words of the property *)
Definition In_fs (t : fs) (p : path) (k : kind) : Prop := In (p, k) t.
Definition Dir (t : fs) (p : path) : Prop := p = [] \/ In_fs t p KD.
Definition excluded (c : cfg) (p : path) : Prop := exists l, In l (c_excl c) /\ In p l.

Definition Has_src (t : fs) (c : cfg) (d : path) : Prop :=
  exists n, n <> [] /\ In_fs t (d ++ [n]) KF /\ c_suffix_ok c n = true.

(* the directories that are searched *)
Definition Source_dir (t : fs) (c : cfg) (d : path) : Prop :=
  match resolved_dirs t c with
  | [[]] => Dir t d /\ Has_src t c d /\ ~ excluded c d              (* none configured: every directory holding a source file *)
  | _ => (exists l, In l (match c_source c with [] => [[[]]] | x => x end) /\ In d l) /\ Dir t d /\ ~ excluded c d
  end.

Definition Spec (t : fs) (c : cfg) (p : path) : Prop :=
  exists d n, p = d ++ [n] /\ n <> [] /\ Source_dir t c d /\ In_fs t p KF /\ c_suffix_ok c n = true /\
    ~ excluded c p /\ (forall e, In e (c_excl_suf c) -> suffixb e n = false).

(* names are non-empty (a file system has no empty entry names) *)
Definition wf_fs (t : fs) : Prop := forall p k, In (p, k) t -> p <> [] /\ name p <> [].
