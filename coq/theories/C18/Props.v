(* C18/Props.v -- property theorems only.  Statement of C18: the files indexed at start-up
   are exactly the files whose name ends in a default or additional suffix, lying directly in
   a source directory (every directory under the root holding such a file when none is
   configured; otherwise the configured directories after glob expansion), minus everything
   matched by the exclusion paths and every file ending in an excluded suffix.
   Model: C18/Model.v, C18/Suffix.v; tie: harness/props/c18.py. *)
From Coq Require Import String.
From FV Require Import Base.Str Base.Regex Gen.GenRegex C18.Model C18.Proofs C18.Suffix.

(* for every directory tree, every configuration (given as glob expansions) and every suffix predicate *)
Theorem discovered_equals_spec : forall t c p, wf_fs t -> In p (discover t c) <-> Spec t c p.
Proof. exact discover_spec. Qed.
Print Assumptions discovered_equals_spec.

(* the pattern the code builds for additional suffixes means "the name ends in the suffix"
   (CPython's $ also tolerates one final LF) -- for all suffixes and all names *)
Theorem additional_suffixes_spec : forall exts e0 s,
  psearchb {| p_re := alt_chain (map (fun e => anchored (Lits e)) (e0 :: exts)); p_ci := false |} s = true <->
  exists e, In e (e0 :: exts) /\ (ends_with e s \/ ends_with (e ++ [LF]) s).
Proof. exact extra_suffix_spec. Qed.
Print Assumptions additional_suffixes_spec.

Theorem source_suffix_spec : forall exts s,
  src_suffix_ok exts s = true <->
  (exists j, j <= length s /\ hit s (anchored (p_re P_SRC_EXT_DEFAULT_BODY)) j) \/
  (exists e, In e exts /\ (ends_with e s \/ ends_with (e ++ [LF]) s)).
Proof. exact src_suffix_spec. Qed.
Print Assumptions source_suffix_spec.

Theorem excluded_suffix_is_endswith : forall suf s, suffixb suf s = true <-> exists pre, s = pre ++ suf.
Proof. exact suffixb_spec. Qed.
Print Assumptions excluded_suffix_is_endswith.

(* The default expression (generated from the source): on every name of length <= 4 over the
   alphabet { . f F 9 0 o R p x } it accepts exactly the names ending in .f/.F followed by
   nothing or one of the listed tails.  A finite check (a test of the generated pattern, bounded
   by length 4), not an unbounded theorem. *)
Definition tails : list str :=
  List.map s2l ["77"; "90"; "95"; "03"; "05"; "08"; "18"; "or"; "oR"; "Or"; "OR"; "pp"; "pP"; "Pp"; "PP"]%string.
Definition default_ok (n : str) : bool :=
  existsb (fun d => existsb (fun t => suffixb (46 :: d :: t)%N n) ([] :: tails)) [102; 70]%N.
Fixpoint words (alpha : str) (k : nat) : list str :=
  match k with O => [[]] | S k' => [] :: flat_map (fun w => List.map (fun a => a :: w) alpha) (words alpha k') end.
Example default_suffix_bounded :
  forallb (fun n => Bool.eqb (src_suffix_ok [] n) (default_ok n)) (words (s2l ".fF90oRpx") 4) = true.
Proof. vm_compute. reflexivity. Qed.
Print Assumptions default_suffix_bounded.

(* non-vacuity: a small tree; nothing configured; then source_dirs = [sub], excl = [sub/x.f90] *)
Example C18_nonvacuous :
  let a := s2l "a.f90" in let b := s2l "b.txt" in let sub := s2l "sub" in let x := s2l "x.F" in let y := s2l "y.f90.bak" in
  let t := [([a], KF); ([b], KF); ([sub], KD); ([sub; x], KF); ([sub; y], KF); ([s2l "empty"], KD)] in
  let ok := src_suffix_ok [] in
  discover t {| c_source := []; c_excl := []; c_excl_suf := []; c_suffix_ok := ok |} = [[a]; [sub; x]] /\
  discover t {| c_source := [[[sub]]]; c_excl := [[[sub; x]]]; c_excl_suf := []; c_suffix_ok := ok |} = [] /\
  discover t {| c_source := []; c_excl := []; c_excl_suf := [s2l ".F"]; c_suffix_ok := ok |} = [[a]].
Proof. vm_compute. repeat split. Qed.
Print Assumptions C18_nonvacuous.
