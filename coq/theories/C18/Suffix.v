(* C18/Suffix.v -- the source-suffix pattern  ((DEFAULT$)|(e1$)|(e2$)...)  built by
   create_src_file_exts_str, with DEFAULT taken from Gen/GenRegex.v, and what `search` on it means. *)
From FV Require Import Base.Str Base.Regex Base.RegexFacts Gen.GenRegex C18.Model.

Definition anchored (r : re) : re := Cat r Eol.
Fixpoint alt_chain (l : list re) : re :=
  match l with [] => RUnknown | [x] => x | x :: r => Alt x (alt_chain r) end.

Definition src_re (exts : list str) : re :=
  alt_chain (anchored (p_re P_SRC_EXT_DEFAULT_BODY) :: map (fun e => anchored (Lits e)) exts).
Definition src_pat (exts : list str) : pat := {| p_re := src_re exts; p_ci := false |}.
Definition src_suffix_ok (exts : list str) (n : str) : bool := psearchb (src_pat exts) n.

Section S.
Variable s : str.

Definition hit (r : re) (i : nat) : Prop := match_at false s r i <> None.

Lemma nth_error_skipn (l : str) : forall i, nth_error l i = hd_error (skipn i l).
Proof. induction l as [|x l IH]; intros [|i]; cbn; auto. Qed.

Lemma skipn_S_tl (l : str) : forall i, skipn (S i) l = tl (skipn i l).
Proof.
  induction l as [|x l IH]; intros [|i]; try reflexivity.
  change (skipn (S (S i)) (x :: l)) with (skipn (S i) l). change (skipn (S i) (x :: l)) with (skipn i l). apply IH.
Qed.

Lemma m_Lit {A} c i cp (k : nat -> caps -> option A) :
  m false s (Lit c) i cp k =
  match skipn i s with x :: _ => if N.eqb c x then k (S i) cp else None | [] => None end.
Proof.
  unfold Lit. cbn [m]. unfold at_. rewrite nth_error_skipn.
  destruct (skipn i s) as [|x r]; cbn [hd_error]; [reflexivity|].
  unfold in_class. cbn [existsb in_cset andb xorb orb]. destruct (N.eqb c x); reflexivity.
Qed.

Lemma m_Lits {A} e : forall i cp (k : nat -> caps -> option A),
  m false s (Lits e) i cp k = if prefixb e (skipn i s) then k (i + length e) cp else None.
Proof.
  induction e as [|c e IH]; intros i cp k.
  - cbn. now rewrite Nat.add_0_r.
  - destruct e as [|c2 e'].
    + change (Lits [c]) with (Lit c). rewrite m_Lit. cbn [prefixb length].
      destruct (skipn i s) as [|x r]; [reflexivity|]. rewrite andb_true_r.
      replace (i + 1) with (S i) by lia. reflexivity.
    + change (Lits (c :: c2 :: e')) with (Cat (Lit c) (Lits (c2 :: e'))). cbn [m]. rewrite m_Lit.
      cbn [prefixb]. destruct (skipn i s) as [|x r] eqn:E; [reflexivity|].
      destruct (N.eqb c x); [|reflexivity]. cbn [andb]. rewrite IH.
      rewrite skipn_S_tl, E. cbn [tl]. cbn [length]. replace (S i + S (length e')) with (i + S (S (length e'))) by lia.
      reflexivity.
Qed.

Lemma hit_alt a b i : hit (Alt a b) i <-> hit a i \/ hit b i.
Proof.
  unfold hit, match_at. cbn [m].
  destruct (m false s a i [] (fun j cp => Some (j, cp))); [split; [left|]; congruence|].
  split; [right; assumption|intros [H|H]; [congruence|assumption]].
Qed.

Lemma hit_alt_chain l i : l <> [] -> hit (alt_chain l) i <-> exists r, In r l /\ hit r i.
Proof.
  induction l as [|x l IH]; intro Hne; [congruence|].
  destruct l as [|y l].
  - cbn [alt_chain]. split; [intro H; exists x; split; [now left|exact H]|].
    intros [r [[<-|Hf] H]]; [exact H|destruct Hf].
  - change (alt_chain (x :: y :: l)) with (Alt x (alt_chain (y :: l))). rewrite hit_alt, IH by discriminate.
    split.
    + intros [H|[r [Hin H]]]; [exists x; split; [now left|exact H]|exists r; split; [now right|exact H]].
    + intros [r [[<-|Hin] H]]; [now left|right; exists r; auto].
Qed.

Lemma hit_anchored_lits e i :
  hit (anchored (Lits e)) i <-> prefixb e (skipn i s) = true /\ eol s (i + length e) = true.
Proof.
  unfold hit, match_at, anchored. cbn [m]. rewrite m_Lits.
  destruct (prefixb e (skipn i s)); [|split; [congruence|intros [H _]; discriminate]].
  destruct (eol s (i + length e)).
  - split; [auto|congruence].
  - split; [congruence|intros [_ H]; discriminate].
Qed.

Lemma search_from_hit r : forall fuel i,
  search_from false s r fuel i <> None <-> exists j, i <= j <= i + fuel /\ hit r j.
Proof.
  induction fuel as [|f IH]; intro i; cbn [search_from]; unfold hit in *.
  - destruct (match_at false s r i) as [[j c]|] eqn:E.
    + split; [intros _; exists i; split; [lia|congruence]|congruence].
    + split; [congruence|]. intros [j [Hj H]]. replace j with i in H by lia. congruence.
  - destruct (match_at false s r i) as [[j c]|] eqn:E.
    + split; [intros _; exists i; split; [lia|congruence]|congruence].
    + rewrite IH. split.
      * intros [j [Hj H]]. exists j. split; [lia|exact H].
      * intros [j [Hj H]]. destruct (Nat.eq_dec j i) as [->|Hn]; [congruence|]. exists j. split; [lia|exact H].
Qed.

Lemma searchb_hit r : psearchb {| p_re := r; p_ci := false |} s = true <-> exists j, j <= length s /\ hit r j.
Proof.
  unfold psearchb, psearch, search. cbn [p_re p_ci].
  pose proof (search_from_hit r (length s) 0) as H.
  destruct (search_from false s r (length s) 0) as [x|].
  - split; [intros _|reflexivity]. destruct H as [H _]. destruct H as [j [Hj Hh]]; [congruence|].
    exists j. split; [lia|exact Hh].
  - split; [discriminate|]. intros [j [Hj Hh]]. destruct H as [_ H]. exfalso. apply H; [|reflexivity].
    exists j. split; [lia|exact Hh].
Qed.
End S.

(* prefix at position i and anchored at the end: the name ends with e (or with e followed by a final LF) *)
Lemma prefix_skipn_split (e s : str) i : i <= length s ->
  prefixb e (skipn i s) = true -> exists rest, s = firstn i s ++ e ++ rest /\ length rest = length s - i - length e.
Proof.
  intros Hi H.
  assert (G : forall e t, prefixb e t = true -> exists rest, t = e ++ rest).
  { clear. induction e as [|c e IH]; intros t H; [now exists t|].
    destruct t as [|x t]; [discriminate|]. cbn in H. apply andb_true_iff in H as [H1 H2].
    apply N.eqb_eq in H1. subst. destruct (IH _ H2) as [r ->]. now exists r. }
  destruct (G _ _ H) as [rest Hr]. exists rest. split; [rewrite <- Hr; symmetry; apply firstn_skipn|].
  assert (L : length (skipn i s) = length s - i) by apply skipn_length.
  rewrite Hr, app_length in L. lia.
Qed.

Definition ends_with (e s : str) : Prop := exists pre, s = pre ++ e.

(* the additional suffixes: search succeeds on one of them exactly when the name ends in it
   (CPython's $ also accepts one trailing LF) *)
Theorem extra_suffix_spec exts e0 s :
  psearchb {| p_re := alt_chain (map (fun e => anchored (Lits e)) (e0 :: exts)); p_ci := false |} s = true <->
  exists e, In e (e0 :: exts) /\ (ends_with e s \/ ends_with (e ++ [LF]) s).
Proof.
  rewrite searchb_hit. split.
  - intros [j [Hj Hh]]. apply hit_alt_chain in Hh; [|discriminate].
    destruct Hh as [r [Hin Hr]]. apply in_map_iff in Hin as [e [<- He]].
    apply hit_anchored_lits in Hr as [Hp He2]. exists e. split; [exact He|].
    destruct (prefix_skipn_split e s j Hj Hp) as [rest [Hs Hl]].
    unfold eol in He2. apply orb_true_iff in He2 as [H|H].
    + apply Nat.eqb_eq in H. left. exists (firstn j s).
      assert (rest = []) by (destruct rest; [reflexivity|cbn in Hl; lia]). subst rest. now rewrite app_nil_r in Hs.
    + apply andb_true_iff in H as [H1 H2]. apply Nat.eqb_eq in H1. right. exists (firstn j s).
      destruct rest as [|x [|y rest]]; cbn in Hl; try lia.
      unfold at_ in H2. rewrite Hs in H2 at 1.
      rewrite nth_error_app2 in H2 by (rewrite firstn_length; lia).
      rewrite firstn_length, Nat.min_l in H2 by lia.
      replace (j + length e - j) with (length e) in H2 by lia.
      rewrite nth_error_app2 in H2 by lia. rewrite Nat.sub_diag in H2. cbn in H2.
      apply N.eqb_eq in H2. subst x. exact Hs.
  - intros [e [He [[pre Hs]|[pre Hs]]]].
    + exists (length pre). subst s. rewrite app_length. split; [lia|].
      apply hit_alt_chain; [discriminate|]. exists (anchored (Lits e)). split; [apply in_map_iff; now exists e|].
      apply hit_anchored_lits. rewrite skipn_app, Nat.sub_diag, skipn_all. cbn [skipn app].
      rewrite <- (app_nil_r e) at 2. rewrite prefixb_app. split; [reflexivity|].
      unfold eol. rewrite app_length, Nat.eqb_refl. reflexivity.
    + exists (length pre). subst s. rewrite !app_length. split; [lia|].
      apply hit_alt_chain; [discriminate|]. exists (anchored (Lits e)). split; [apply in_map_iff; now exists e|].
      apply hit_anchored_lits. rewrite skipn_app, Nat.sub_diag, skipn_all. cbn [skipn app].
      rewrite prefixb_app. split; [reflexivity|].
      unfold eol. rewrite !app_length. cbn [length].
      replace (S (length pre + length e) =? length pre + (length e + 1)) with true by (symmetry; apply Nat.eqb_eq; lia).
      unfold at_. rewrite nth_error_app2 by lia. replace (length pre + length e - length pre) with (length e) by lia.
      rewrite nth_error_app2 by lia. rewrite Nat.sub_diag. cbn. now rewrite orb_true_r.
Qed.

(* the whole pattern: the default expression or one of the extras *)
Theorem src_suffix_spec exts s :
  src_suffix_ok exts s = true <->
  (exists j, j <= length s /\ hit s (anchored (p_re P_SRC_EXT_DEFAULT_BODY)) j) \/
  (exists e, In e exts /\ (ends_with e s \/ ends_with (e ++ [LF]) s)).
Proof.
  unfold src_suffix_ok, src_pat, src_re. rewrite searchb_hit. split.
  - intros [j [Hj Hh]]. apply hit_alt_chain in Hh; [|discriminate].
    destruct Hh as [r [[<-|Hin] Hr]]; [left; exists j; auto|].
    right. destruct exts as [|e0 exts]; [destruct Hin|].
    apply (extra_suffix_spec exts e0 s). apply searchb_hit. exists j. split; [exact Hj|].
    apply hit_alt_chain; [discriminate|]. exists r. auto.
  - intros [[j [Hj Hh]]|[e [He Hs]]].
    + exists j. split; [exact Hj|]. apply hit_alt_chain; [discriminate|]. eexists. split; [now left|exact Hh].
    + destruct exts as [|e0 exts]; [destruct He|].
      assert (H : psearchb {| p_re := alt_chain (map (fun e => anchored (Lits e)) (e0 :: exts)); p_ci := false |} s = true)
        by (apply extra_suffix_spec; exists e; auto).
      apply searchb_hit in H as [j [Hj Hh]]. exists j. split; [exact Hj|].
      apply hit_alt_chain in Hh; [|discriminate]. destruct Hh as [r [Hin Hr]].
      apply hit_alt_chain; [discriminate|]. exists r. split; [now right|exact Hr].
Qed.
