(* C05/Blocks.v -- check_scope (fortls/parsers/internal/utilities.py) on a scope that holds unnamed
   or abstract INTERFACE blocks (#GEN_INT pseudo scopes): the interface bodies are searched with the
   default accessibility of the holder.  Shared/Resolve.v leaves these blocks out; this file models
   them on their own.  Tie: harness/props/c05.py check_blocks (children, accessibility and blocks
   read from the implementation's parsed module objects; answers of find_in_scope compared). *)
From Coq Require Import ZArith.
From FV Require Import Base.Str Shared.Resolve.

Inductive child :=
| CEnt (e : ent)
| CBlock (defvis : Z) (members : list ent).      (* the block's own def_vis, and its interface bodies *)

Definition priv (dv : Z) (e : ent) : bool := (e_vis e <? 0)%Z || ((dv <? 0)%Z && (e_vis e <=? 0)%Z).

Definition hit (dv : Z) (name : str) (fp : bool) (e : ent) : bool := negb (fp && priv dv e) && str_eqb (e_name e) name.

(* as repaired: `check_scope(child, var_name_lower, filter_public, def_vis=def_vis)` *)
Fixpoint check_scope_b (dv : Z) (cs : list child) (name : str) (fp : bool) : option ent :=
  match cs with
  | [] => None
  | CEnt e :: r => if hit dv name fp e then Some e else check_scope_b dv r name fp
  | CBlock _ ms :: r => match find (hit dv name fp) ms with Some e => Some e | None => check_scope_b dv r name fp end
  end.

(* as pinned: the recursive call took the block's own default accessibility *)
Fixpoint check_scope_pinned (dv : Z) (cs : list child) (name : str) (fp : bool) : option ent :=
  match cs with
  | [] => None
  | CEnt e :: r => if hit dv name fp e then Some e else check_scope_pinned dv r name fp
  | CBlock bdv ms :: r => match find (hit bdv name fp) ms with Some e => Some e | None => check_scope_pinned dv r name fp end
  end.

Fixpoint members_of (cs : list child) : list ent :=
  match cs with [] => [] | CEnt e :: r => e :: members_of r | CBlock _ ms :: r => ms ++ members_of r end.

Lemma check_scope_b_sound dv name fp : forall cs e,
  check_scope_b dv cs name fp = Some e -> In e (members_of cs) /\ e_name e = name /\ (fp = true -> priv dv e = false).
Proof.
  assert (Hhit : forall e, hit dv name fp e = true -> e_name e = name /\ (fp = true -> priv dv e = false)).
  { intros e H. unfold hit in H. apply andb_true_iff in H as [H1 H2]. split; [now apply str_eqb_eq|].
    intros ->. cbn in H1. now destruct (priv dv e). }
  induction cs as [|c r IH]; intros e H; cbn in H; [discriminate|]. destruct c as [e0|bdv ms].
  - destruct (hit dv name fp e0) eqn:Eh.
    + inversion H; subst. split; [now left|now apply Hhit].
    + destruct (IH e H) as (H1 & H2). split; [now right|exact H2].
  - destruct (find (hit dv name fp) ms) as [e1|] eqn:Ef.
    + inversion H; subst. apply find_some in Ef as [Hin Hh]. cbn. split; [apply in_app_iff; now left|now apply Hhit].
    + destruct (IH e H) as (H1 & H2). cbn. split; [apply in_app_iff; now right|exact H2].
Qed.

(* completeness: the first accessible entity of that name, in source order, is the answer *)
Lemma check_scope_b_first dv name fp : forall cs,
  check_scope_b dv cs name fp = find (hit dv name fp) (members_of cs).
Proof.
  induction cs as [|c r IH]; [reflexivity|]. destruct c as [e0|bdv ms]; cbn.
  - destruct (hit dv name fp e0); [reflexivity|exact IH].
  - rewrite IH. induction ms as [|m ms IHm]; cbn; [reflexivity|]. destruct (hit dv name fp m); [reflexivity|exact IHm].
Qed.
