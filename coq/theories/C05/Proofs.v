(* C05/Proofs.v *)
From Coq Require Import ZArith.
From FV Require Import Base.Str Shared.Resolve.

Lemma check_scope_in sc n fp e : check_scope sc n fp = Some e -> In e (sp_children sc) /\ e_name e = n.
Proof.
  unfold check_scope. intro H. apply find_some in H as [H1 H2]. split; [exact H1|].
  apply andb_true_iff in H2 as [_ H2]. now apply str_eqb_eq.
Qed.

Lemma check_scope_public sc n e : check_scope sc n true = Some e -> is_private sc e = false.
Proof.
  unfold check_scope. intro H. apply find_some in H as [_ H2].
  apply andb_true_iff in H2 as [H2 _]. cbn in H2. now apply negb_true_iff in H2.
Qed.

(* whatever the dictionary is, the USE phase only ever returns public children of the used module *)
Lemma search_uses_public p d : forall n mi e m,
  search_uses p d n = Some (mi, Some e, ViaUse m) ->
  exists msc, scope_at p mi = Some msc /\ In e (sp_children msc) /\ is_private msc e = false.
Proof.
  induction d as [|[m0 info] r IH]; intros n mi e m H; cbn [search_uses] in H; [discriminate|].
  destruct (sassoc m0 (p_tree p)) as [mi0|] eqn:Et; [|eauto].
  destruct (str_eqb m0 n); [discriminate|].
  assert (G : forall remote,
     match scope_at p mi0 with
     | Some msc => match check_scope msc remote true with
                   | Some e0 => Some (mi0, Some e0, ViaUse m0)
                   | None => search_uses p r n
                   end
     | None => search_uses p r n
     end = Some (mi, Some e, ViaUse m) ->
     exists msc, scope_at p mi = Some msc /\ In e (sp_children msc) /\ is_private msc e = false).
  { intros remote G. destruct (scope_at p mi0) as [msc|] eqn:Es; [|eauto].
    destruct (check_scope msc remote true) as [e0|] eqn:Ec; [|eauto].
    inversion G; subst. exists msc. split; [exact Es|]. split; [now apply check_scope_in in Ec|now apply check_scope_public in Ec]. }
  destruct (i_only info) as [|o os].
  - eapply G; eauto.
  - destruct (smem n (o :: os)); [eapply G; eauto|eauto].
Qed.

Lemma find_in_scope_private_never_via_use p : forall fuel si n mi e m,
  find_in_scope p fuel si n = FSome (mi, Some e, ViaUse m) ->
  exists msc, scope_at p mi = Some msc /\ In e (sp_children msc) /\ is_private msc e = false.
Proof.
  induction fuel as [|f IH]; intros si n mi e m H; cbn [find_in_scope] in H; [discriminate|].
  destruct (scope_at p si) as [sc|]; [|discriminate].
  destruct (check_scope sc n false); [discriminate|].
  destruct (get_use_tree p _ sc [] [] [] []) as [d|]; [|discriminate].
  destruct (search_uses p d n) as [r|] eqn:Es.
  - inversion H; subst. eapply search_uses_public; eauto.
  - destruct (sp_parent sc); [eauto|discriminate].
Qed.

Lemma local_first p f si sc n e :
  scope_at p si = Some sc -> check_scope sc n false = Some e ->
  find_in_scope p (S f) si n = FSome (si, Some e, Local).
Proof. intros Hs Hc. cbn [find_in_scope]. now rewrite Hs, Hc. Qed.

(* a scoping unit without USE statements: local, else exactly what its host gives *)
Lemma no_use_tree p fuel sc d only ren path : sp_uses sc = [] -> get_use_tree p (S fuel) sc d only ren path = Some d.
Proof. intro H. cbn [get_use_tree]. rewrite H. destruct (smem (sp_fqsn sc) path); reflexivity. Qed.

Lemma host_chain p f si sc n :
  scope_at p si = Some sc -> sp_uses sc = [] -> check_scope sc n false = None ->
  find_in_scope p (S f) si n = match sp_parent sc with Some par => find_in_scope p f par n | None => FNone end.
Proof.
  intros Hs Hu Hc. cbn [find_in_scope]. rewrite Hs, Hc.
  replace (S (length (p_tree p)) + 1) with (S (S (length (p_tree p)))) by lia.
  rewrite no_use_tree by exact Hu. reflexivity.
Qed.

(* one USE statement of a module that uses nothing *)
Lemma direct_use p f si sc u mi msc n :
  scope_at p si = Some sc -> sp_uses sc = [u] -> check_scope sc n false = None ->
  sassoc (u_mod u) (p_tree p) = Some mi -> scope_at p mi = Some msc -> sp_uses msc = [] ->
  find_in_scope p (S f) si n =
  if str_eqb (u_mod u) n then FSome (mi, None, TheModule)
  else
    let via := match check_scope msc (match sassoc n (u_ren u) with Some x => x | None => n end) true with
               | Some e => Some (FSome (mi, Some e, ViaUse (u_mod u)))
               | None => None
               end in
    let host := match sp_parent sc with Some par => find_in_scope p f par n | None => FNone end in
    match u_only u with
    | [] => match via with Some r => r | None => host end
    | _ => if smem n (u_only u) then match via with Some r => r | None => host end else host
    end.
Proof.
  intros Hs Hu Hc Ht Hm Hmu. cbn [find_in_scope]. rewrite Hs, Hc.
  replace (S (length (p_tree p)) + 1) with (S (S (length (p_tree p)))) by lia.
  remember (S (length (p_tree p))) as f1 eqn:Ef1.
  cbn [get_use_tree]. cbn [smem]. rewrite Hu, Ht. cbn [sassoc app]. rewrite Hm.
  rewrite Ef1, (no_use_tree p _ msc _ _ _ _ Hmu).
  cbn [search_uses]. rewrite Ht. destruct (str_eqb (u_mod u) n); [reflexivity|].
  cbn [i_only i_ren]. rewrite Hm.
  destruct (u_only u) as [|o os].
  - destruct (check_scope msc _ true); reflexivity.
  - destruct (smem n (o :: os)); [|reflexivity]. destruct (check_scope msc _ true); reflexivity.
Qed.
