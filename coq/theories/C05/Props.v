(* C05/Props.v -- property theorems only.  Statement of C05: go-to-definition lands on the
   declaration Fortran binds the name to (local before host, USE with ONLY/rename and
   PUBLIC/PRIVATE, re-export); a PRIVATE entity of a module is never the answer outside it.
   Model: Shared/Resolve.v, a transcription of get_use_tree / find_in_scope checked against
   textDocument/definition on generated workspaces (harness/props/c05.py).  Strength: partial --
   the theorems below cover the named fragment; re-export chains are covered by the
   differential against the generator's ground truth, where two deviations are known findings. *)
From Coq Require Import ZArith.
From FV Require Import Base.Str Shared.Resolve C05.Proofs C05.Inherit.

(* for ALL programs, fuels and start scopes (no well-formedness at all): whatever comes back
   through USE association is a child of the used module that is public there *)
Theorem private_never_via_use : forall p fuel si n mi e m,
  find_in_scope p fuel si n = FSome (mi, Some e, ViaUse m) ->
  exists msc, scope_at p mi = Some msc /\ In e (sp_children msc) /\ is_private msc e = false.
Proof. exact find_in_scope_private_never_via_use. Qed.
Print Assumptions private_never_via_use.

Theorem local_declaration_first : forall p f si sc n e,
  scope_at p si = Some sc -> check_scope sc n false = Some e ->
  find_in_scope p (S f) si n = FSome (si, Some e, Local).
Proof. exact local_first. Qed.
Print Assumptions local_declaration_first.

Theorem host_association : forall p f si sc n,
  scope_at p si = Some sc -> sp_uses sc = [] -> check_scope sc n false = None ->
  find_in_scope p (S f) si n = match sp_parent sc with Some par => find_in_scope p f par n | None => FNone end.
Proof. exact host_chain. Qed.
Print Assumptions host_association.

(* USE m / USE m, ONLY: ... with renames, m using nothing itself: the module name itself, else
   (if admitted by the ONLY list) the public entity of m under its remote name, else the host *)
Theorem direct_use_correct : forall p f si sc u mi msc n,
  scope_at p si = Some sc -> sp_uses sc = [u] -> check_scope sc n false = None ->
  sassoc (u_mod u) (p_tree p) = Some mi -> scope_at p mi = Some msc -> sp_uses msc = [] ->
  find_in_scope p (S f) si n =
  if str_eqb (u_mod u) n then FSome (mi, None, TheModule)
  else
    let via := match check_scope msc (match sassoc n (u_ren u) with Some x => x | None => n end) true with
               | Some e => Some (FSome (mi, Some e, ViaUse (u_mod u)))
               | None => None
               end in
    let host := match sp_parent sc with Some par => find_in_scope p f par n | None => FNone end in
    match u_only u with
    | [] => match via with Some r => r | None => host end
    | _ => if smem n (u_only u) then match via with Some r => r | None => host end else host
    end.
Proof. exact direct_use. Qed.
Print Assumptions direct_use_correct.

(* The full statement is false of the faithful model.  Witness 1 (known finding
   C05:rename-lost-diamond): `use m1` + `use m2, only: r => x` with m2 re-exporting m1's x:
   the local name r is lost because m1 is in the dictionary twice. *)
Definition A := [97]%N. Definition X := [120]%N. Definition R := [114]%N.
Definition M1 := [109; 49]%N. Definition M2 := [109; 50]%N. Definition MAIN := [112]%N.
Definition diamond : prog := PR
  [ SCP M1 [EN X 0 7] 0 [] None;
    SCP M2 [] 0 [US M1 [X] []] None;
    SCP MAIN [] 0 [US M1 [] []; US M2 [R] [(R, X)]] None ]
  [(M1, 0); (M2, 1); (MAIN, 2)].
Theorem C05_refuted_rename_lost_diamond : resolve diamond 2 R = FNone.
Proof. vm_compute. reflexivity. Qed.
Print Assumptions C05_refuted_rename_lost_diamond.

(* Witness 2 (known finding C05:private-reexport): m2 has default PRIVATE and uses m1; a
   program using m2 still resolves x to m1's x. *)
Definition hidden : prog := PR
  [ SCP M1 [EN X 0 7] 0 [] None;
    SCP M2 [] (-1) [US M1 [] []] None;
    SCP MAIN [] 0 [US M2 [] []] None ]
  [(M1, 0); (M2, 1); (MAIN, 2)].
Theorem C05_refuted_private_reexport : resolve hidden 2 X = FSome (0, Some (EN X 0 7), ViaUse M1).
Proof. vm_compute. reflexivity. Qed.
Print Assumptions C05_refuted_private_reexport.

(* `%` chains: the component found for `obj%name` is the declaration in the nearest type up the EXTENDS chain that declares the
   name, for every type table (cyclic ones included: the walk is fuelled) and every name *)
Theorem inherited_component_is_nearest_declaration : forall fuel ts i name, lookup_member fuel ts i name = nearest fuel ts i name.
Proof. exact member_lookup_is_nearest. Qed.
Print Assumptions inherited_component_is_nearest_declaration.

Theorem member_declared_by_an_ancestor : forall fuel ts i e, In e (members fuel ts i) ->
  exists j t, nth_error ts j = Some t /\ In e (t_children t).
Proof. exact member_is_declared_up_the_chain. Qed.
Print Assumptions member_declared_by_an_ancestor.

Theorem own_component_hides_inherited : forall f ts i t e, nth_error ts i = Some t -> In e (members (S f) ts i) ->
  smem (e_name e) (map e_name (t_children t)) = true -> In e (t_children t).
Proof. exact own_member_hides_inherited. Qed.
Print Assumptions own_component_hides_inherited.

Example C05_nonvacuous :
  let p := PR [ SCP M1 [EN X 0 7; EN A (-1) 8] 0 [] None;
                SCP MAIN [EN A 0 9] 0 [US M1 [R] [(R, X)]] None;
                SCP [115]%N [] 0 [] (Some 1) ] [(M1, 0); (MAIN, 1)] in
  resolve p 2 R = FSome (0, Some (EN X 0 7), ViaUse M1) /\   (* rename through the host's USE *)
  resolve p 2 A = FSome (1, Some (EN A 0 9), Local) /\        (* host declaration, not m1's private a *)
  resolve p 2 X = FNone /\                                    (* not in the ONLY list *)
  resolve p 2 M1 = FSome (0, None, TheModule).
Proof. vm_compute. repeat split. Qed.
Print Assumptions C05_nonvacuous.

(* unnamed / abstract INTERFACE blocks (C05/Blocks.v): whatever check_scope returns to a search from outside the module
   (filter_public) is accessible by the MODULE's default accessibility, wherever it is declared -- directly or as an
   interface body; and it is the first such declaration in source order *)
From FV Require Import C05.Blocks.
Theorem interface_bodies_follow_module_accessibility : forall dv cs name e,
  check_scope_b dv cs name true = Some e -> In e (members_of cs) /\ e_name e = name /\ priv dv e = false.
Proof. intros dv cs name e H. destruct (check_scope_b_sound dv name true cs e H) as (H1 & H2 & H3). auto. Qed.
Print Assumptions interface_bodies_follow_module_accessibility.

Theorem interface_bodies_searched_in_source_order : forall dv cs name fp,
  check_scope_b dv cs name fp = find (hit dv name fp) (members_of cs).
Proof. intros. apply check_scope_b_first. Qed.
Print Assumptions interface_bodies_searched_in_source_order.

(* the pinned tree asked the block for its own default accessibility: a module with a PRIVATE statement leaked its interface bodies *)
Theorem C05_refuted_private_interface_body : exists dv cs name e,
  check_scope_pinned dv cs name true = Some e /\ priv dv e = true.
Proof. exists (-1)%Z, [CBlock 0%Z [EN X 0 3]], X, (EN X 0 3). vm_compute. split; reflexivity. Qed.
Print Assumptions C05_refuted_private_interface_body.

Example C05_blocks_nonvacuous :
  check_scope_b (-1) [CBlock 0 [EN X 0 3]; CEnt (EN A 1 4); CBlock 0 [EN R 1 5]] X true = None /\
  check_scope_b (-1) [CBlock 0 [EN X 0 3]; CEnt (EN A 1 4); CBlock 0 [EN R 1 5]] R true = Some (EN R 1 5) /\
  check_scope_b (-1) [CBlock 0 [EN X 0 3]; CEnt (EN A 1 4)] X false = Some (EN X 0 3) /\
  check_scope_b 0 [CBlock 0 [EN X 0 3]; CEnt (EN X 0 9)] X true = Some (EN X 0 3).
Proof. vm_compute. repeat split. Qed.
Print Assumptions C05_blocks_nonvacuous.
