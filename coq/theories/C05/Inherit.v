(* C05/Inherit.v -- components through `%`: the members of a derived type as fortls builds them
   (fortls/parsers/internal/type.py Type.get_children / _resolve_inherit_parent: own children, then the parent's members whose
   names the type does not declare itself) and the lookup of find_in_scope(type, name, local_only=True).  Model and proofs. *)
From Coq Require Import ZArith Lia.
From FV Require Import Base.Str Shared.Resolve.

Record ty := TY { t_children : list ent; t_parent : option nat }.     (* parent: index of the EXTENDS parent in the type table *)

Definition by_name (name : str) (e : ent) : bool := str_eqb (e_name e) name.

(* get_children(): children + in_children, in_children computed from the parent's get_children() *)
Fixpoint members (fuel : nat) (ts : list ty) (i : nat) : list ent :=
  match fuel with
  | O => []
  | S f =>
    match nth_error ts i with
    | None => []
    | Some t =>
      t_children t ++
      match t_parent t with
      | Some p => filter (fun e => negb (smem (e_name e) (map e_name (t_children t)))) (members f ts p)
      | None => []
      end
    end
  end.

Definition lookup_member (fuel : nat) (ts : list ty) (i : nat) (name : str) : option ent := find (by_name name) (members fuel ts i).

(* the language rule: the declaration in the nearest type up the EXTENDS chain that declares the name *)
Fixpoint nearest (fuel : nat) (ts : list ty) (i : nat) (name : str) : option ent :=
  match fuel with
  | O => None
  | S f =>
    match nth_error ts i with
    | None => None
    | Some t =>
      match find (by_name name) (t_children t) with
      | Some e => Some e
      | None => match t_parent t with Some p => nearest f ts p name | None => None end
      end
    end
  end.

Lemma smem_map_find name (l : list ent) : find (by_name name) l = None -> smem name (map e_name l) = false.
Proof.
  induction l as [|e r IH]; cbn; [reflexivity|]. unfold by_name at 1. destruct (str_eqb (e_name e) name) eqn:E; [discriminate|].
  intro H. rewrite (IH H), orb_false_r.
  destruct (str_eqb name (e_name e)) eqn:E2; [|reflexivity]. apply str_eqb_eq in E2. subst. assert (str_eqb (e_name e) (e_name e) = true) by now apply str_eqb_eq. congruence.
Qed.

(* filtering out other names does not change what a lookup of `name` finds *)
Lemma find_filter_other name names (l : list ent) : smem name names = false ->
  find (by_name name) (filter (fun e => negb (smem (e_name e) names)) l) = find (by_name name) l.
Proof.
  intro Hn. induction l as [|e r IH]; cbn; [reflexivity|].
  destruct (by_name name e) eqn:Eb.
  - unfold by_name in Eb. apply str_eqb_eq in Eb. rewrite Eb, Hn. cbn. unfold by_name. rewrite Eb.
    assert (str_eqb name name = true) by now apply str_eqb_eq. now rewrite H.
  - destruct (smem (e_name e) names); cbn; [exact IH|]. rewrite Eb. exact IH.
Qed.

Lemma find_app {A} (f : A -> bool) (a b : list A) : find f (a ++ b) = match find f a with Some x => Some x | None => find f b end.
Proof. induction a as [|x r IH]; cbn; [reflexivity|]. destruct (f x); [reflexivity|exact IH]. Qed.

Theorem member_lookup_is_nearest : forall fuel ts i name, lookup_member fuel ts i name = nearest fuel ts i name.
Proof.
  unfold lookup_member. induction fuel as [|f IH]; intros ts i name; [reflexivity|].
  cbn [members nearest]. destruct (nth_error ts i) as [t|]; [|reflexivity].
  rewrite find_app. destruct (find (by_name name) (t_children t)) as [e|] eqn:Eo; [reflexivity|].
  destruct (t_parent t) as [p|]; [|reflexivity].
  rewrite (find_filter_other name _ _ (smem_map_find name _ Eo)). apply IH.
Qed.

(* every member offered for `obj%` is declared by the type or one of its ancestors *)
Theorem member_is_declared_up_the_chain : forall fuel ts i e, In e (members fuel ts i) ->
  exists j t, nth_error ts j = Some t /\ In e (t_children t).
Proof.
  induction fuel as [|f IH]; intros ts i e H; [contradiction|]. cbn [members] in H.
  destruct (nth_error ts i) as [t|] eqn:Et; [|contradiction]. apply in_app_or in H as [H|H]; [eauto|].
  destruct (t_parent t) as [p|]; [|contradiction]. apply filter_In in H as [H _]. eapply IH; eauto.
Qed.

(* a name the type declares itself hides the inherited one: it is listed once *)
Theorem own_member_hides_inherited : forall f ts i t e, nth_error ts i = Some t -> In e (members (S f) ts i) ->
  smem (e_name e) (map e_name (t_children t)) = true -> In e (t_children t).
Proof.
  intros f ts i t e Ht H Hs. cbn [members] in H. rewrite Ht in H. apply in_app_or in H as [H|H]; [exact H|].
  destruct (t_parent t); [|contradiction]. apply filter_In in H as [_ H]. rewrite Hs in H. discriminate.
Qed.
