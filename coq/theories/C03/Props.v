(* C03/Props.v -- property theorems only.  Statement of C03: indexing completes on every text
   and never raises.  What is proved: the part of totality that is logic -- the open-construct
   machine of FortranAST as driven by FortranFile.parse (Shared/ScopeMachine.v).  Every place
   where the code dereferences current_scope / pops a stack is a possible `Crash` of the model;
   the theorem says that no sequence of classified lines whatsoever (not only well-formed
   programs) reaches one, and that close_file always ends with nothing open.
   Not modelled: the statement readers (text -> classification), CPython's regex engine, wall
   time.  Those are exercised by harness/props/c03.py (prefixes and mutants of every sample). *)
From FV Require Import Base.Str Shared.ScopeMachine C03.Model C03.Proofs.

Theorem scope_machine_safe : forall (l : list (nat * tok)) (last : nat),
  (exists s, run init 0 l = Ok s /\ Inv s) /\
  (exists s', parse l last = Ok s' /\ cur s' = None).
Proof. exact machine_safe. Qed.
Print Assumptions scope_machine_safe.

(* the invariant, one token at a time, from any state satisfying it *)
Theorem step_never_crashes : forall s n t, Inv s -> exists s1, step s n t = Ok s1 /\ Inv s1.
Proof. exact step_ok. Qed.
Print Assumptions step_never_crashes.

Theorem invariant_initially : Inv init.
Proof. exact inv_init. Qed.
Print Assumptions invariant_initially.

(* the pinned tree (before commit "fix: a PROCEDURE declaration outside any scope ...") read
   current_scope.get_type() unguarded: with that step the machine crashes on the first token *)
Definition step_pinned (s : st) (n : nat) (t : tok) : res :=
  match t with
  | TVar true => match cur_kind s with None => Crash 99 | Some KInt => Ok s | Some _ => ensure_scope s end
  | _ => step s n t
  end.
Theorem C03_refuted_procedure_outside_scope : exists t, step_pinned init 1 t = Crash 99.
Proof. exists (TVar true). reflexivity. Qed.
Print Assumptions C03_refuted_procedure_outside_scope.

(* non-vacuity: a malformed stream (END without anything open, a TYPE IS region closed by END
   SELECT, a labelled DO nest closed by one label, trailing garbage) runs through *)
Example C03_nonvacuous :
  let l := [(1, TEnd true []); (2, TVar true); (3, TOpen KSub [115]%N); (4, TSelect 2 [97]%N); (5, TSelect 3 [98]%N);
            (6, TEnd false [ERSelect]); (7, TDo [49; 48]%N [100]%N); (8, TDo [49; 48]%N [101]%N); (9, TLabelled [49; 48]%N);
            (10, TEnd false [ERMod]); (11, TEnd true []); (12, TEnd true []); (13, TOpen KType [116]%N)] in
  match parse l 14 with
  | Ok s => (cur s, length (scopes s), errs s) = (None, 7, [(None, 12)])
  | Crash _ => False
  end.
Proof. vm_compute. reflexivity. Qed.
Print Assumptions C03_nonvacuous.
