(* C03/Model.v -- comparison helpers for the trace validation of Shared/ScopeMachine.v. *)
From FV Require Import Base.Str Shared.ScopeMachine.

Definition optnat_eqb (a b : option nat) : bool :=
  match a, b with None, None => true | Some x, Some y => x =? y | _, _ => false end.

Definition scope_eqb (x : scope) (e : nat * str * nat * nat * option nat) : bool :=
  let '(ty, name, sl, el, par) := e in
  (type_id (s_kind x) =? ty) && str_eqb (s_name x) name && (s_sline x =? sl) && (s_eline x =? el) && optnat_eqb (s_parent x) par.

Fixpoint scopes_eqb (a : list scope) (b : list (nat * str * nat * nat * option nat)) : bool :=
  match a, b with
  | [], [] => true
  | x :: a', y :: b' => scope_eqb x y && scopes_eqb a' b'
  | _, _ => false
  end.

Definition err_eqb (a b : option nat * nat) : bool := optnat_eqb (fst a) (fst b) && (snd a =? snd b).

(* the model must neither crash nor differ *)
Definition chk_scopes (toks : list (nat * tok)) (last : nat)
           (sc : list (nat * str * nat * nat * option nat)) (er : list (option nat * nat)) : bool :=
  match parse toks last with
  | Ok s => scopes_eqb (scopes s) sc && list_eqb err_eqb (errs s) er
  | Crash _ => false
  end.
Definition crashes (toks : list (nat * tok)) (last : nat) : bool :=
  match parse toks last with Ok _ => false | Crash _ => true end.
