(* C03/Proofs.v -- safety of the scope machine for every token stream. *)
From FV Require Import Base.Str Shared.ScopeMachine.

Definition chain (s : st) : list nat := match cur s with Some c => c :: sstack s | None => [] end.

Record Inv (s : st) : Prop := {
  i_cur_reg : cur s = None <-> eregex s = None;
  i_len : length (sstack s) = length (estack s);
  i_empty : cur s = None -> sstack s = [];
  i_lt : Forall (fun x => x < length (scopes s)) (chain s);
  i_none : forall m, none_s s = Some m -> m < length (scopes s) /\ exists pre, chain s = pre ++ [m]
}.

Lemma inv_init : Inv init.
Proof. constructor; cbn; try tauto; try constructor; intros; discriminate. Qed.

Lemma length_set_nth {A} (l : list A) i f : length (set_nth l i f) = length l.
Proof. revert i. induction l as [|x l IH]; intros [|i]; cbn; auto. Qed.

(* ---- raw_add *)
Lemma inv_raw_add s k name n e ex : Inv s -> Inv (raw_add s k name n e ex).
Proof.
  intros [Hcr Hlen Hemp Hlt Hnone]. unfold raw_add.
  destruct (cur s) as [c|] eqn:Ec.
  - assert (Hr : exists r, eregex s = Some r).
    { destruct (eregex s) as [r|] eqn:Er; [eauto|]. destruct Hcr as [_ H]. specialize (H eq_refl). discriminate. }
    destruct Hr as [r Hr]. rewrite Hr.
    constructor; cbn [cur eregex sstack estack scopes none_s].
    + split; discriminate.
    + cbn [length]. now rewrite Hlen.
    + discriminate.
    + unfold chain in *. cbn [cur sstack scopes]. rewrite Ec in Hlt. rewrite app_length. cbn [length].
      constructor; [lia|]. eapply Forall_impl; [|exact Hlt]. cbn. intros; lia.
    + intros m Hm. destruct (Hnone m Hm) as [H1 [pre H2]]. rewrite app_length. cbn [length]. split; [lia|].
      unfold chain in *. cbn [cur sstack]. rewrite Ec in H2. exists (length (scopes s) :: pre). cbn. now rewrite H2.
  - assert (Hr : eregex s = None) by (apply Hcr; reflexivity). rewrite Hr.
    specialize (Hemp eq_refl).
    constructor; cbn [cur eregex sstack estack scopes none_s].
    + split; discriminate.
    + exact Hlen.
    + discriminate.
    + unfold chain. cbn [cur sstack scopes]. rewrite Hemp, app_length. cbn [length]. constructor; [lia|constructor].
    + intros m Hm. destruct (Hnone m Hm) as [H1 [pre H2]]. unfold chain in H2. rewrite Ec in H2.
      destruct pre; discriminate.
Qed.

Lemma raw_add_cur s k name n e ex : cur (raw_add s k name n e ex) = Some (length (scopes s)).
Proof. unfold raw_add. destruct (cur s); reflexivity. Qed.

Lemma raw_add_none s k name n e ex : none_s (raw_add s k name n e ex) = none_s s.
Proof. unfold raw_add. destruct (cur s); reflexivity. Qed.

(* a state with a none scope always has a current scope *)
Lemma none_has_cur s m : Inv s -> none_s s = Some m -> cur s <> None.
Proof.
  intros I Hm. destruct (i_none s I m Hm) as [_ [pre H]]. unfold chain in H.
  destruct (cur s); [discriminate|]. destruct pre; discriminate.
Qed.

Lemma create_none_ok s : Inv s -> cur s = None -> exists s1, create_none s = Some s1 /\ Inv s1 /\ cur s1 <> None.
Proof.
  intros I Hc. unfold create_none.
  destruct (none_s s) as [m|] eqn:Hn; [exfalso; eapply none_has_cur; eauto|].
  eexists. split; [reflexivity|].
  pose proof (inv_raw_add s KNone [109; 97; 105; 110]%N 1 ERNoneProg false I) as I1.
  set (s1 := raw_add s KNone [109; 97; 105; 110]%N 1 ERNoneProg false) in *.
  assert (Hc1 : cur s1 = Some (length (scopes s))) by apply raw_add_cur.
  split.
  - destruct I1 as [A B C D E]. constructor; cbn [cur eregex sstack estack scopes none_s]; auto.
    intros m Hm. inversion Hm; subst m. unfold s1, raw_add. rewrite Hc. cbn [scopes chain cur sstack].
    rewrite app_length. cbn [length]. split; [lia|]. exists []. cbn.
    pose proof (i_empty s I Hc) as He. unfold chain. cbn [cur sstack]. now rewrite He.
  - cbn [cur]. rewrite Hc1. discriminate.
Qed.

Lemma add_scope_ok s k name n : Inv s -> exists s1, add_scope s k name n = Some s1 /\ Inv s1.
Proof.
  intro I. unfold add_scope. destruct (cur s) as [c|] eqn:Ec.
  - eexists. split; [reflexivity|]. now apply inv_raw_add.
  - destruct (req_container k).
    + destruct (create_none_ok s I Ec) as [s1 [H1 [I1 _]]]. rewrite H1. eexists. split; [reflexivity|]. now apply inv_raw_add.
    + eexists. split; [reflexivity|]. now apply inv_raw_add.
Qed.

Lemma inv_transfer s s' :
  cur s' = cur s -> sstack s' = sstack s -> estack s' = estack s -> eregex s' = eregex s ->
  none_s s' = none_s s -> length (scopes s') = length (scopes s) -> Inv s -> Inv s'.
Proof.
  intros H1 H2 H3 H4 H5 H6 [A B C D E].
  assert (Hc : chain s' = chain s) by (unfold chain; now rewrite H1, H2).
  constructor; rewrite ?H1, ?H2, ?H3, ?H4, ?H5, ?H6, ?Hc; auto.
Qed.

(* ---- end_scope *)
Lemma end_scope_checked_ok s n : Inv s -> exists s1, end_scope s n true = Some s1 /\ Inv s1 /\ labels s1 = labels s.
Proof.
  intros I. unfold end_scope.
  destruct (cur s) as [c|] eqn:Ec.
  2:{ cbn. eexists. split; [reflexivity|]. split; [|reflexivity].
      apply (inv_transfer s); cbn; auto. }
  destruct (none_s s) as [m|] eqn:Hn.
  - destruct (c =? m) eqn:Ecm; cbn [andb].
    + eexists. split; [reflexivity|]. split; [|reflexivity].
      apply (inv_transfer s); cbn; auto.
    + apply Nat.eqb_neq in Ecm.
      destruct I as [Hcr Hlen Hemp Hlt Hnone].
      destruct (Hnone m Hn) as [Hm [pre Hp]]. unfold chain in Hp, Hlt. rewrite Ec in Hp, Hlt.
      destruct pre as [|p pre]; [cbn in Hp; inversion Hp; congruence|].
      cbn in Hp. inversion Hp as [[Hpc Hss]]. subst p.
      assert (Hne : sstack s <> []) by (rewrite Hss; destruct pre; discriminate).
      destruct (sstack s) as [|x r] eqn:Es; [congruence|].
      destruct (estack s) as [|y q] eqn:Ee; [cbn in Hlen; discriminate|].
      eexists. split; [reflexivity|]. split; [|reflexivity].
      constructor; cbn [cur eregex sstack estack scopes none_s].
      * split; discriminate.
      * cbn in Hlen. lia.
      * discriminate.
      * unfold chain. cbn [cur sstack scopes]. rewrite length_set_nth. inversion Hlt; assumption.
      * intros m' Hm'. inversion Hm'; subst m'. rewrite length_set_nth. split; [exact Hm|].
        unfold chain. cbn [cur sstack]. exists pre. exact Hss.
  - cbn [andb].
    destruct I as [Hcr Hlen Hemp Hlt Hnone]. unfold chain in Hlt. rewrite Ec in Hlt.
    destruct (sstack s) as [|x r] eqn:Es; destruct (estack s) as [|y q] eqn:Ee; cbn in Hlen; try discriminate.
    + eexists. split; [reflexivity|]. split; [|reflexivity].
      constructor; cbn [cur eregex sstack estack scopes none_s]; try tauto.
      * unfold chain. cbn [cur]. constructor.
      * intros m' Hm'. discriminate.
    + eexists. split; [reflexivity|]. split; [|reflexivity].
      constructor; cbn [cur eregex sstack estack scopes none_s].
      * split; discriminate.
      * lia.
      * discriminate.
      * unfold chain. cbn [cur sstack scopes]. rewrite length_set_nth. inversion Hlt; assumption.
      * intros m' Hm'. discriminate.
Qed.

Lemma inv_with_labels s l : Inv s ->
  Inv (ST (cur s) (sstack s) (estack s) (eregex s) (none_s s) (scopes s) (errs s) l (globals s)).
Proof. intro I. apply (inv_transfer s); cbn; auto. Qed.

Lemma inv_with_errs s e : Inv s ->
  Inv (ST (cur s) (sstack s) (estack s) (eregex s) (none_s s) (scopes s) e (labels s) (globals s)).
Proof. intro I. apply (inv_transfer s); cbn; auto. Qed.

Lemma cur_kind_some s : Inv s -> cur s <> None -> exists k, cur_kind s = Some k.
Proof.
  intros I H. unfold cur_kind, kind_at. destruct (cur s) as [c|] eqn:Ec; [|congruence].
  pose proof (i_lt s I) as Hlt. unfold chain in Hlt. rewrite Ec in Hlt. inversion Hlt as [|? ? Hc _]; subst.
  destruct (nth_error (scopes s) c) eqn:En; [cbn; eauto|]. apply nth_error_None in En. lia.
Qed.

Lemma close_labels_ok fuel : forall s n lbl, Inv s -> exists s1, close_labels fuel s n lbl = Ok s1 /\ Inv s1.
Proof.
  induction fuel as [|f IH]; intros s n lbl I; cbn [close_labels]; [eauto|].
  destruct (labels s) as [|top rest]; [eauto|].
  destruct (str_eqb lbl top); [|eauto].
  destruct (end_scope_checked_ok s n I) as [s1 [H1 [I1 _]]]. rewrite H1.
  apply IH. now apply inv_with_labels.
Qed.

Lemma ensure_scope_ok s : Inv s -> exists s1, ensure_scope s = Ok s1 /\ Inv s1.
Proof.
  intro I. unfold ensure_scope. destruct (cur s) eqn:Ec; [eauto|].
  destruct (create_none_ok s I Ec) as [s1 [H1 [I1 _]]]. rewrite H1. cbn. eauto.
Qed.

(* ---- END *)
Lemma step_end_ok s n bare ends : Inv s -> exists s1, step_end s n bare ends = Ok s1 /\ Inv s1.
Proof.
  intro I. unfold step_end.
    destruct (eregex s) as [r|] eqn:Er; [|eauto].
    assert (Hc : cur s <> None) by (intro H; apply (i_cur_reg s I) in H; congruence).
    destruct (cur_kind_some s I Hc) as [k Hk]. rewrite Hk.
    match goal with |- context [if ?c then ?a else s] => set (s1 := if c then a else s) end.
    assert (I1 : Inv s1).
    { unfold s1. match goal with |- Inv (if ?c then _ else _) => destruct c end; [|exact I].
      apply (inv_transfer s); cbn; auto. }
    destruct (bare || existsb (ereg_eqb r) ends); [|eauto].
    destruct (is_select k && is_type_region k).
    + destruct (end_scope_checked_ok s1 n I1) as [s2 [H2 [I2 _]]]. rewrite H2.
      destruct (end_scope_checked_ok s2 n I2) as [s3 [H3 [I3 _]]]. rewrite H3. cbn. eauto.
    + destruct (end_scope_checked_ok s1 n I1) as [s3 [H3 [I3 _]]]. rewrite H3. cbn. eauto.
Qed.

(* ---- one token: never a crash, invariant kept *)
Lemma step_ok s n t : Inv s -> exists s1, step s n t = Ok s1 /\ Inv s1.
Proof.
  intro I. destruct t as [bare ends|lbl|k name|lbl name|ty name|name|name|pro| | |bare ends lbl]; cbn [step].
  - (* END *) now apply step_end_ok.
  - (* labelled line *)
    destruct (eregex s) as [r|] eqn:Er; [|eauto].
    assert (Hc : cur s <> None) by (intro H; apply (i_cur_reg s I) in H; congruence).
    destruct (cur_kind_some s I Hc) as [k Hk]. rewrite Hk.
    destruct k; eauto. now apply close_labels_ok.
  - destruct (add_scope_ok s k name n I) as [s1 [H1 I1]]. rewrite H1. cbn. eauto.
  - match goal with |- context [add_scope ?x KDo name n] => set (s0 := x) end.
    assert (I0 : Inv s0) by (unfold s0; destruct lbl; [exact I|now apply inv_with_labels]).
    destruct (add_scope_ok s0 KDo name n I0) as [s1 [H1 I1]]. rewrite H1. cbn. eauto.
  - (* SELECT *)
    assert (H0 : exists s0, match cur_kind s with
                            | Some k => if is_select k && is_type_region k then end_scope s n true else Some s
                            | None => Some s end = Some s0 /\ Inv s0).
    { destruct (cur_kind s) as [k|]; [|eauto]. destruct (is_select k && is_type_region k); [|eauto].
      destruct (end_scope_checked_ok s n I) as [s1 [H1 [I1 _]]]. eauto. }
    destruct H0 as [s0 [H0 I0]]. rewrite H0.
    destruct (add_scope_ok s0 (KSelect ty) name n I0) as [s1 [H1 I1]]. rewrite H1. cbn. eauto.
  - destruct (add_scope_ok s KInt name n I) as [s1 [H1 I1]]. rewrite H1.
    destruct (end_scope_checked_ok s1 n I1) as [s2 [H2 [I2 _]]]. rewrite H2. cbn. eauto.
  - destruct (cur_kind s) as [[]|]; eauto.
    destruct (add_scope_ok s KImpl name n I) as [s1 [H1 I1]]. rewrite H1. cbn. eauto.
  - destruct (if pro then match cur_kind s with Some KInt => true | _ => false end else false); [eauto|].
    now apply ensure_scope_ok.
  - now apply ensure_scope_ok.
  - eauto.
  - (* labelled END DO *)
    destruct (step_end_ok s n bare ends I) as [s1 [H1 I1]]. rewrite H1.
    destruct (cur_kind s) as [[]|]; eauto.
    destruct (labels s1) as [|top rest]; [eauto|].
    destruct (_ && _); [|eauto]. eexists. split; [reflexivity|]. now apply inv_with_labels.
Qed.

Lemma run_ok l : forall s n, Inv s -> exists s1, run s n l = Ok s1 /\ Inv s1.
Proof.
  induction l as [|[ln t] l IH]; intros s n I; cbn [run]; [eauto|].
  destruct (step_ok s ln t I) as [s1 [H1 I1]]. rewrite H1. now apply IH.
Qed.

(* ---- close_file *)
Lemma close_all_ok n fuel : forall s, length (sstack s) < fuel ->
  exists s1, close_all fuel s n = Ok s1 /\ cur s1 = None.
Proof.
  induction fuel as [|f IH]; intros s H; [lia|]. cbn [close_all].
  destruct (cur s) as [c|] eqn:Ec; [|eauto].
  unfold end_scope. rewrite andb_false_r, Ec.
  destruct (sstack s) as [|x r] eqn:Es.
  - destruct (estack s) as [|y q]; cbn [close_all].
    + destruct f; cbn [close_all cur]; eauto.
    + destruct f; cbn [close_all cur]; eauto.
  - destruct (estack s) as [|y q]; apply IH; cbn [sstack]; cbn [length] in H; lia.
Qed.

Theorem machine_safe l last :
  (exists s, run init 0 l = Ok s /\ Inv s) /\
  (exists s', parse l last = Ok s' /\ cur s' = None).
Proof.
  destruct (run_ok l init 0 inv_init) as [s [H I]]. split; [eauto|].
  unfold parse. rewrite H. unfold close_file.
  destruct (close_all_ok last (S (length (sstack s))) s (Nat.lt_succ_diag_r _)) as [s1 [H1 C1]]. rewrite H1.
  destruct (none_s s1); eexists; split; try reflexivity; exact C1.
Qed.
