(* C04/WsSymbols.v -- model of serve_workspace_symbol / find_in_workspace: filter by
   case-insensitive substring, then Python's sorted(key=name) (stable; code point order). *)
From Coq Require Import Sorting.Permutation Sorting.Sorted.
From FV Require Import Base.Str.

Fixpoint str_leb (a b : str) : bool :=
  match a, b with
  | [], _ => true
  | _ :: _, [] => false
  | x :: a', y :: b' => if N.ltb x y then true else if N.eqb x y then str_leb a' b' else false
  end.

Fixpoint containsb (q s : str) : bool :=
  (* s.find(q) >= 0 *)
  prefixb q s || match s with [] => false | _ :: r => containsb q r end.

Record cand := CA { c_name : str; c_id : nat }.
Definition matches (q : str) (c : cand) : bool := containsb (lower_str q) (lower_str (c_name c)).
Definition name_le (a b : cand) : Prop := str_leb (c_name a) (c_name b) = true.

Fixpoint insert (x : cand) (l : list cand) : list cand :=
  match l with
  | [] => [x]
  | y :: r => if str_leb (c_name y) (c_name x) then y :: insert x r else x :: y :: r
  end.
(* stable: an element is inserted after the elements that compare equal *)
Definition isort (l : list cand) : list cand := fold_left (fun acc x => insert x acc) l [].

Definition ws_symbols (cands : list cand) (q : str) : list cand := isort (filter (matches q) cands).

Lemma str_leb_total a : forall b, str_leb a b = true \/ str_leb b a = true.
Proof.
  induction a as [|x a IH]; intros [|y b]; cbn; auto.
  destruct (N.ltb x y) eqn:E1; [auto|]. destruct (N.ltb y x) eqn:E2; [auto|].
  apply N.ltb_ge in E1, E2. assert (x = y) by lia. subst. rewrite N.eqb_refl. apply IH.
Qed.

Lemma str_leb_trans a : forall b c, str_leb a b = true -> str_leb b c = true -> str_leb a c = true.
Proof.
  induction a as [|x a IH]; intros [|y b] [|z c] H1 H2; cbn in *; try discriminate; auto.
  destruct (N.ltb x y) eqn:E1; destruct (N.ltb y z) eqn:E2.
  - apply N.ltb_lt in E1, E2. replace (N.ltb x z) with true by (symmetry; apply N.ltb_lt; lia). reflexivity.
  - destruct (N.eqb y z) eqn:E3; [|discriminate]. apply N.eqb_eq in E3. subst. now rewrite E1.
  - destruct (N.eqb x y) eqn:E3; [|discriminate]. apply N.eqb_eq in E3. subst. now rewrite E2.
  - destruct (N.eqb x y) eqn:E3; [|discriminate]. destruct (N.eqb y z) eqn:E4; [|discriminate].
    apply N.eqb_eq in E3, E4. subst. rewrite E2, N.eqb_refl. eapply IH; eauto.
Qed.

Lemma insert_perm x l : Permutation (insert x l) (x :: l).
Proof.
  induction l as [|y r IH]; cbn; [auto|].
  destruct (str_leb (c_name y) (c_name x)); [|auto].
  rewrite IH. apply perm_swap.
Qed.

Lemma insert_sorted x l : StronglySorted name_le l -> StronglySorted name_le (insert x l).
Proof.
  induction 1 as [|y r Hr IH Hy]; cbn; [repeat constructor|].
  destruct (str_leb (c_name y) (c_name x)) eqn:E.
  - constructor; [exact IH|]. apply Forall_forall. intros z Hz.
    apply (Permutation_in _ (insert_perm x r)) in Hz. destruct Hz as [<-|Hz]; [exact E|].
    rewrite Forall_forall in Hy. now apply Hy.
  - assert (Hxy : str_leb (c_name x) (c_name y) = true) by (destruct (str_leb_total (c_name x) (c_name y)); congruence).
    constructor; [constructor; assumption|]. constructor; [exact Hxy|].
    apply Forall_forall. intros z Hz. rewrite Forall_forall in Hy. unfold name_le. eapply str_leb_trans; [exact Hxy|]. now apply Hy.
Qed.

Lemma fold_insert_perm l : forall acc, Permutation (fold_left (fun a x => insert x a) l acc) (acc ++ l).
Proof.
  induction l as [|x l IH]; intro acc; cbn; [now rewrite app_nil_r|].
  rewrite IH. rewrite (insert_perm x acc). cbn. apply Permutation_middle.
Qed.

Lemma fold_insert_sorted l : forall acc, StronglySorted name_le acc -> StronglySorted name_le (fold_left (fun a x => insert x a) l acc).
Proof. induction l as [|x l IH]; intros acc H; cbn; [exact H|]. apply IH. now apply insert_sorted. Qed.

Lemma ws_symbols_perm cands q : Permutation (ws_symbols cands q) (filter (matches q) cands).
Proof. unfold ws_symbols, isort. apply (fold_insert_perm _ []). Qed.

Lemma ws_symbols_sorted_lemma cands q : StronglySorted name_le (ws_symbols cands q).
Proof. unfold ws_symbols, isort. apply fold_insert_sorted. constructor. Qed.
