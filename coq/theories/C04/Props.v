(* C04/Props.v -- property theorems only.  Statement of C04: the outline contains each program
   unit and each procedure, derived type and named interface declared directly inside a unit
   exactly once, with the right kind, container, and start/end lines equal to the lines of its
   opening and END statements; workspace symbols = the matching top-level units and module
   members, sorted by name.
   Model: Shared/ScopeMachine.v (trace-validated, C03), C04/Model.v; tie: harness/props/c04.py. *)
From Coq Require Import String Sorting.Permutation Sorting.Sorted.
From FV Require Import Base.Str Base.Regex Gen.GenRegex Shared.ScopeMachine C03.Proofs C04.Model C04.Proofs C04.WsSymbols.

(* parser o printer = identity: for every well-formed file (any number of units, any nesting
   depth of procedures, types, interfaces, BLOCK/DO/IF/WHERE/ASSOCIATE/ENUM constructs, each
   closed by its own END word or, where allowed, a bare END) the scope objects are exactly the
   expected records: kind, name, line of the opening statement, line of the END, enclosing object *)
Theorem outline_of_render : forall l last,
  wfs l = true -> forallb top_ok l = true ->
  exists s, parse (renders 1 l) last = Ok s /\ scopes s = recss 0 None 1 l /\ errs s = [] /\ cur s = None.
Proof. exact outline_records. Qed.
Print Assumptions outline_of_render.

(* the same inside any open construct, from any reachable state *)
Theorem nested_construct_records : forall t s n0 n,
  Inv s -> cur s <> None -> wf t = true ->
  exists s', run s n0 (render n t) = Ok s' /\ frame_eq s s' /\ Inv s' /\ globals s' = globals s /\
             scopes s' = scopes s ++ recs (length (scopes s)) (cur s) n t.
Proof. intros t. exact (tree_ok t). Qed.
Print Assumptions nested_construct_records.

(* workspace/symbol: exactly the candidates whose lower-cased name contains the lower-cased
   query, sorted by name (stable) *)
Theorem ws_symbols_are_the_matches : forall cands q,
  Permutation (ws_symbols cands q) (filter (matches q) cands).
Proof. exact ws_symbols_perm. Qed.
Print Assumptions ws_symbols_are_the_matches.

Theorem ws_symbols_sorted : forall cands q, StronglySorted name_le (ws_symbols cands q).
Proof. exact ws_symbols_sorted_lemma. Qed.
Print Assumptions ws_symbols_sorted.

(* END recognition on the generated patterns (bounded: up to 3 blanks before END and between
   END and the keyword; every keyword, upper and lower case).  A test of the generated
   patterns, not an unbounded theorem. *)
Definition end_keywords : list (str * pat) :=
  [(s2l "MODULE", P_END_MOD); (s2l "SUBMODULE", P_END_SMOD); (s2l "PROGRAM", P_END_PROG); (s2l "SUBROUTINE", P_END_SUB);
   (s2l "FUNCTION", P_END_FUN); (s2l "BLOCK", P_END_BLOCK); (s2l "CRITICAL", P_END_BLOCK); (s2l "DO", P_END_DO);
   (s2l "WHERE", P_END_WHERE); (s2l "ASSOCIATE", P_END_ASSOCIATE); (s2l "IF", P_END_IF); (s2l "SELECT", P_END_SELECT);
   (s2l "TYPE", P_END_TYPED); (s2l "ENUM", P_END_ENUMD); (s2l "INTERFACE", P_END_INT); (s2l "PROCEDURE", P_END_PRO)]%string.
Definition blanks (n : nat) : str := repeat 32%N n.
Definition end_ok (kw : str) (p : pat) (a b : nat) : bool :=
  let line := blanks a ++ s2l "END"%string ++ blanks b ++ kw in
  match pmatch P_END_WORD line with
  | Some (_, cp) =>
    match group cp 1 with
    | Some (i, j) => pmatchb p (skipn i line) && (i =? a + 3 + b)
    | None => false
    end
  | None => false
  end.
Example end_word_recognises_keywords :
  forallb (fun kp => forallb (fun a => forallb (fun b =>
     end_ok (fst kp) (snd kp) a b && end_ok (lower_str (fst kp)) (snd kp) a b) [0; 1; 2; 3]) [0; 1; 2; 3]) end_keywords = true.
Proof. vm_compute. reflexivity. Qed.
Print Assumptions end_word_recognises_keywords.

Example C04_nonvacuous :
  let m := s2l "m"%string in let t := s2l "t"%string in let f := s2l "f"%string in let d := s2l "#DO1"%string in
  let file := [Node KMod m false [ERMod]
                 [Leaf (LVar false);
                  Node KType t false [ERType] [Leaf (LVar false); Leaf LPlain; Leaf (LVar true)];
                  Leaf LPlain;
                  Node KFun f true [] [Leaf (LVar false); Node KDo d false [ERDo] [Leaf LPlain]]]] in
  wfs file = true /\ forallb top_ok file = true /\
  recss 0 None 1 file = [SC KMod m 1 15 None; SC KType t 3 7 (Some 0); SC KFun f 9 14 (Some 0); SC KDo d 11 13 (Some 2)]
  /\ map y_name (doc_symbols (recss 0 None 1 file)) = [m; t; f].
Proof. cbv zeta. repeat split; vm_compute; reflexivity. Qed.
Print Assumptions C04_nonvacuous.
