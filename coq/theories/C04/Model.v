(* C04/Model.v -- program trees, their rendering as classified lines, the scope records the
   property expects, and the model of the two symbol handlers.  Definitions only. *)
From FV Require Import Base.Str Shared.ScopeMachine.

Inductive leaf := LPlain | LVar (pro : bool) | LUse.
Definition leaf_tok (l : leaf) : tok := match l with LPlain => TPlain | LVar p => TVar p | LUse => TUse end.

(* a construct: opening line, body, END line.  [bare] = closed by a bare END;
   [ends] = the END_x patterns its END words match (must contain its own) *)
Inductive tree :=
| Leaf (l : leaf)
| Node (k : kind) (name : str) (bare : bool) (ends : list ereg) (body : list tree).

Definition open_tok (k : kind) (name : str) : tok :=
  match k with KDo => TDo [] name | _ => TOpen k name end.

(* number of lines *)
Fixpoint size (t : tree) : nat :=
  match t with
  | Leaf _ => 1
  | Node _ _ _ _ body => 2 + (fix go (l : list tree) := match l with [] => 0 | x :: r => size x + go r end) body
  end.
Definition sizes (l : list tree) : nat := (fix go (l : list tree) := match l with [] => 0 | x :: r => size x + go r end) l.

(* tokens with their line numbers, starting at line n *)
Fixpoint render (n : nat) (t : tree) : list (nat * tok) :=
  match t with
  | Leaf l => [(n, leaf_tok l)]
  | Node k name bare ends body =>
    (n, open_tok k name) ::
    (fix go (m : nat) (l : list tree) : list (nat * tok) :=
       match l with [] => [] | x :: r => render m x ++ go (m + size x) r end) (S n) body
    ++ [(S n + sizes body, TEnd bare ends)]
  end.
Definition renders (m : nat) (l : list tree) : list (nat * tok) :=
  (fix go (m : nat) (l : list tree) : list (nat * tok) :=
     match l with [] => [] | x :: r => render m x ++ go (m + size x) r end) m l.

(* number of scope objects a tree creates *)
Fixpoint count (t : tree) : nat :=
  match t with
  | Leaf _ => 0
  | Node _ _ _ _ body => 1 + (fix go (l : list tree) := match l with [] => 0 | x :: r => count x + go r end) body
  end.
Definition counts (l : list tree) : nat := (fix go (l : list tree) := match l with [] => 0 | x :: r => count x + go r end) l.

(* the scope objects the property expects: [base] = index of the first new object,
   [par] = enclosing object, [n] = first line *)
Fixpoint recs (base : nat) (par : option nat) (n : nat) (t : tree) : list scope :=
  match t with
  | Leaf _ => []
  | Node k name _ _ body =>
    SC k name n (S n + sizes body) par ::
    (fix go (b m : nat) (l : list tree) : list scope :=
       match l with [] => [] | x :: r => recs b (Some base) m x ++ go (b + count x) (m + size x) r end) (S base) (S n) body
  end.
Definition recss (b : nat) (par : option nat) (m : nat) (l : list tree) : list scope :=
  (fix go (b m : nat) (l : list tree) : list scope :=
     match l with [] => [] | x :: r => recs b par m x ++ go (b + count x) (m + size x) r end) b m l.

(* well-formed: constructs the fragment covers, closed by their own END *)
Definition plain_kind (k : kind) : bool :=
  match k with KSelect _ | KNone => false | _ => true end.
Fixpoint wf (t : tree) : bool :=
  match t with
  | Leaf _ => true
  | Node k _ bare ends body =>
    plain_kind k && (if bare then negb (req_named_end k) else existsb (ereg_eqb (end_of k)) ends)
    && (fix go (l : list tree) := match l with [] => true | x :: r => wf x && go r end) body
  end.
Definition wfs (l : list tree) : bool := (fix go (l : list tree) := match l with [] => true | x :: r => wf x && go r end) l.

(* a file: program units (which need no container) and plain lines at top level *)
Definition top_ok (t : tree) : bool :=
  match t with
  | Leaf LPlain => true
  | Leaf _ => false
  | Node k _ _ _ _ => negb (req_container k)
  end.

(* ---------------- the handlers, as functions of the scope objects *)
Fixpoint depth (fuel : nat) (sc : list scope) (i : nat) : nat :=
  match fuel with
  | O => 1
  | S f => match nth_error sc i with
           | Some x => match s_parent x with Some p => S (depth f sc p) | None => 1 end
           | None => 1
           end
  end.
Fixpoint top_of (fuel : nat) (sc : list scope) (i : nat) : nat :=
  match fuel with
  | O => i
  | S f => match nth_error sc i with
           | Some x => match s_parent x with Some p => top_of f sc p | None => i end
           | None => i
           end
  end.

Definition starts_hash (s : str) : bool := match s with 35%N :: _ => true | _ => false end.
Definition is_gen_int (s : str) : bool := prefixb [35; 103; 101; 110; 95; 105; 110; 116]%N (lower_str s).

(* serve_document_symbols: map_types *)
Definition sym_kind (ty : nat) : nat :=
  match ty with 1 | 8 => 2 | 2 | 3 => 12 | 4 => 5 | 5 => 11 | 6 => 13 | 7 => 6 | _ => 1 end.

Record symbol := SY { y_name : str; y_kind : nat; y_sline : nat; y_eline : nat; y_container : option str }.

Definition doc_symbols (sc : list scope) : list symbol :=
  let n := length sc in
  flat_map (fun ix =>
    let '(i, x) := ix in
    match s_name x with
    | [] => []
    | _ =>
      if starts_hash (s_name x) || is_select (s_kind x) then []
      else
        let d := depth n sc i in
        let top := top_of n sc i in
        let cont := if 1 <? d then match nth_error sc top with Some t => Some (lower_str (s_name t)) | None => None end else None in
        if 2 <? d then
          match s_parent x with
          | Some p => match nth_error sc p with
                      | Some px => if (d =? 3) && is_gen_int (s_name px) then [SY (s_name x) 11 (s_sline x - 1) (s_eline x - 1) cont] else []
                      | None => []
                      end
          | None => []
          end
        else [SY (s_name x) (sym_kind (type_id (s_kind x))) (s_sline x - 1) (s_eline x - 1) cont]
    end) (combine (seq 0 n) sc).
