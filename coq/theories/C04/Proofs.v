(* C04/Proofs.v -- parser o printer = identity on scope records: running the scope machine
   over the rendering of a well-formed tree creates exactly the records [recs] (kind, name,
   line of the opening statement, line of the END statement, enclosing object). *)
From FV Require Import Base.Str Shared.ScopeMachine C03.Proofs C04.Model.

Section TreeInd.
Variable P : tree -> Prop.
Hypothesis Hleaf : forall l, P (Leaf l).
Hypothesis Hnode : forall k name bare ends body, Forall P body -> P (Node k name bare ends body).
Fixpoint tree_ind' (t : tree) : P t :=
  match t with
  | Leaf l => Hleaf l
  | Node k name bare ends body =>
    Hnode k name bare ends body
      ((fix go (l : list tree) : Forall P l :=
          match l with [] => Forall_nil _ | x :: r => Forall_cons _ (tree_ind' x) (go r) end) body)
  end.
End TreeInd.

Lemma run_n_irrelevant l : forall s n m, run s n l = run s m l.
Proof. destruct l as [|[ln t] l]; intros; reflexivity. Qed.

Lemma run_app a : forall s n b, run s n (a ++ b) = match run s n a with Ok s1 => run s1 n b | c => c end.
Proof.
  induction a as [|[ln t] a IH]; intros s n b; cbn [app run]; [reflexivity|].
  destruct (step s ln t) as [s1|w]; [|reflexivity].
  rewrite IH. destruct (run s1 ln a) as [s2|w]; [apply run_n_irrelevant|reflexivity].
Qed.

(* everything but the scope list and the globals *)
Definition frame_eq (s s' : st) : Prop :=
  cur s' = cur s /\ sstack s' = sstack s /\ estack s' = estack s /\ eregex s' = eregex s /\
  none_s s' = none_s s /\ errs s' = errs s /\ labels s' = labels s.

Lemma frame_refl s : frame_eq s s.
Proof. repeat split. Qed.

Lemma frame_trans a b c : frame_eq a b -> frame_eq b c -> frame_eq a c.
Proof. unfold frame_eq. intuition congruence. Qed.

Lemma nth_error_mid {A} (l : list A) x r : nth_error (l ++ x :: r) (length l) = Some x.
Proof. rewrite nth_error_app2 by lia. now rewrite Nat.sub_diag. Qed.

Lemma set_nth_mid {A} (l : list A) x r f : set_nth (l ++ x :: r) (length l) f = l ++ f x :: r.
Proof. induction l as [|y l IH]; cbn; [reflexivity|]. now rewrite IH. Qed.

Lemma inv_regex_of_cur s : Inv s -> cur s <> None -> exists r, eregex s = Some r.
Proof.
  intros I H. destruct (eregex s) as [r|] eqn:E; [eauto|]. exfalso. apply H. now apply (i_cur_reg s I).
Qed.

Lemma cur_lt s c : Inv s -> cur s = Some c -> c < length (scopes s).
Proof.
  intros I Ec. pose proof (i_lt s I) as H. unfold chain in H. rewrite Ec in H. now inversion H.
Qed.

(* a leaf inside a construct changes nothing *)
Lemma leaf_step s n l : Inv s -> cur s <> None -> step s n (leaf_tok l) = Ok s.
Proof.
  intros I Hc. destruct l as [|pro|]; cbn [leaf_tok step].
  - reflexivity.
  - destruct (if pro then match cur_kind s with Some KInt => true | _ => false end else false); [reflexivity|].
    unfold ensure_scope. destruct (cur s); [reflexivity|congruence].
  - unfold ensure_scope. destruct (cur s); [reflexivity|congruence].
Qed.

(* opening a construct inside another one *)
Lemma open_nested s n k name p r : Inv s -> cur s = Some p -> eregex s = Some r -> plain_kind k = true ->
  step s n (open_tok k name) =
  Ok (ST (Some (length (scopes s))) (p :: sstack s) (r :: estack s) (Some (end_of k)) (none_s s)
         (scopes s ++ [SC k name n n (Some p)]) (errs s) (labels s) (globals s)).
Proof.
  intros I Ec Er Hk.
  assert (H : add_scope s k name n = Some (ST (Some (length (scopes s))) (p :: sstack s) (r :: estack s) (Some (end_of k)) (none_s s)
         (scopes s ++ [SC k name n n (Some p)]) (errs s) (labels s) (globals s))).
  { unfold add_scope, raw_add. rewrite Ec, Er. reflexivity. }
  destruct k; cbn [open_tok step]; try (rewrite H; reflexivity); try discriminate.
Qed.

(* opening a program unit at top level *)
Lemma open_top s n k name : cur s = None -> eregex s = None -> plain_kind k = true -> req_container k = false ->
  step s n (open_tok k name) =
  Ok (ST (Some (length (scopes s))) (sstack s) (estack s) (Some (end_of k)) (none_s s)
         (scopes s ++ [SC k name n n None]) (errs s) (labels s) (globals s ++ [length (scopes s)])).
Proof.
  intros Ec Er Hk Hq.
  assert (H : add_scope s k name n = Some (ST (Some (length (scopes s))) (sstack s) (estack s) (Some (end_of k)) (none_s s)
         (scopes s ++ [SC k name n n None]) (errs s) (labels s) (globals s ++ [length (scopes s)]))).
  { unfold add_scope, raw_add. rewrite Ec, Er, Hq. reflexivity. }
  destruct k; cbn [open_tok step]; try (rewrite H; reflexivity); try discriminate.
Qed.

(* the END of a construct whose record sits at index [id] *)
Lemma end_step (pre : list scope) k name sl par (rest : list scope) (cs : list nat) (ss : list ereg) (es : list ereg) ns er lb gl n (bare : bool) ends cur' (ss' : list nat) er' es' :
  let id := length pre in
  let sc := pre ++ SC k name sl sl par :: rest in
  plain_kind k = true ->
  (if bare then negb (req_named_end k) else existsb (ereg_eqb (end_of k)) ends) = true ->
  (forall m, ns = Some m -> m < id) ->
  (cur', ss') = match cs with x :: r => (Some x, r) | [] => (None, []) end ->
  (er', es') = match ss with x :: r => (Some x, r) | [] => (None, []) end ->
  step (ST (Some id) cs ss (Some (end_of k)) ns sc er lb gl) n (TEnd bare ends) =
  Ok (ST cur' ss' es' er' ns (pre ++ SC k name sl n par :: rest) er lb gl).
Proof.
  intros id sc Hk Hend Hns Hc He. cbn [step]. unfold step_end. cbn [eregex].
  unfold cur_kind, kind_at. cbn [cur scopes]. unfold sc, id. rewrite nth_error_mid. cbn [option_map s_kind].
  assert (Hb : bare && req_named_end k = false).
  { destruct bare; [|reflexivity]. cbn. now apply negb_true_iff in Hend. }
  rewrite Hb. cbn [andb].
  assert (Hm : bare || existsb (ereg_eqb (end_of k)) ends = true).
  { destruct bare; [reflexivity|exact Hend]. }
  rewrite Hm.
  assert (Hsel : is_select k && is_type_region k = false) by (destruct k; try reflexivity; discriminate).
  rewrite Hsel.
  unfold end_scope. cbn [cur none_s sstack estack scopes errs labels globals eregex].
  assert (Hat : match ns with Some m => length pre =? m | None => false end = false).
  { destruct ns as [m|]; [|reflexivity]. apply Nat.eqb_neq. specialize (Hns m eq_refl). unfold id in Hns. lia. }
  rewrite Hat. cbn [andb].
  rewrite set_nth_mid. unfold set_eline. cbn [s_kind s_name s_sline s_parent].
  rewrite <- Hc, <- He. reflexivity.
Qed.

Definition P_tree (t : tree) : Prop :=
  forall s n0 n, Inv s -> cur s <> None -> wf t = true ->
  exists s', run s n0 (render n t) = Ok s' /\ frame_eq s s' /\ Inv s' /\ globals s' = globals s /\
             scopes s' = scopes s ++ recs (length (scopes s)) (cur s) n t.

Definition P_list (l : list tree) : Prop :=
  forall s n0 n, Inv s -> cur s <> None -> wfs l = true ->
  exists s', run s n0 (renders n l) = Ok s' /\ frame_eq s s' /\ Inv s' /\ globals s' = globals s /\
             scopes s' = scopes s ++ recss (length (scopes s)) (cur s) n l.

Lemma recs_node b p n k name bare ends body :
  recs b p n (Node k name bare ends body) = SC k name n (S n + sizes body) p :: recss (S b) (Some b) (S n) body.
Proof. reflexivity. Qed.
Lemma count_node k name bare ends body : count (Node k name bare ends body) = S (counts body).
Proof. reflexivity. Qed.
Lemma recss_cons b p n x r : recss b p n (x :: r) = recs b p n x ++ recss (b + count x) p (n + size x) r.
Proof. reflexivity. Qed.
Lemma counts_cons x r : counts (x :: r) = count x + counts r.
Proof. reflexivity. Qed.

Lemma length_recss l : Forall (fun t => forall b p n, length (recs b p n t) = count t) l ->
  forall b p n, length (recss b p n l) = counts l.
Proof.
  induction 1 as [|x r Hx Hr IH]; intros b p n; [reflexivity|].
  rewrite recss_cons, counts_cons, app_length, Hx, IH. reflexivity.
Qed.

Lemma length_recs t : forall b p n, length (recs b p n t) = count t.
Proof.
  induction t as [l|k name bare ends body IH] using tree_ind'; intros b p n; [reflexivity|].
  rewrite recs_node, count_node. cbn [length]. f_equal. now apply length_recss.
Qed.

Lemma list_of_forall l : Forall P_tree l -> P_list l.
Proof.
  induction 1 as [|x r Hx Hr IH]; intros s n0 n I Hc W.
  - exists s. split; [reflexivity|]. split; [apply frame_refl|]. split; [exact I|]. split; [reflexivity|]. symmetry; apply app_nil_r.
  - cbn [wfs] in W. apply andb_true_iff in W as [W1 W2].
    change (renders n (x :: r)) with (render n x ++ renders (n + size x) r). rewrite run_app.
    destruct (Hx s n0 n I Hc W1) as [s1 [R1 [F1 [I1 [G1 S1]]]]]. rewrite R1.
    assert (Hc1 : cur s1 <> None) by (destruct F1 as [E _]; now rewrite E).
    destruct (IH s1 n0 (n + size x) I1 Hc1 W2) as [s2 [R2 [F2 [I2 [G2 S2]]]]].
    exists s2. split; [exact R2|]. split; [eapply frame_trans; eauto|]. split; [exact I2|]. split; [congruence|].
    rewrite S2, S1. rewrite <- app_assoc. f_equal.
    change (recss (length (scopes s)) (cur s) n (x :: r)) with
      (recs (length (scopes s)) (cur s) n x ++ recss (length (scopes s) + count x) (cur s) (n + size x) r).
    f_equal. rewrite app_length, length_recs. destruct F1 as [E _]. now rewrite E.
Qed.

Lemma tree_ok : forall t, P_tree t.
Proof.
  apply tree_ind'.
  - intros l s n0 n I Hc _. exists s. cbn [render run]. rewrite (leaf_step s n l I Hc).
    split; [reflexivity|]. split; [apply frame_refl|]. split; [exact I|]. split; [reflexivity|]. symmetry; apply app_nil_r.
  - intros k name bare ends body Hbody s n0 n I Hc W.
    cbn [wf] in W. apply andb_true_iff in W as [W Wb]. apply andb_true_iff in W as [Wk We].
    destruct (cur s) as [p|] eqn:Ec; [|congruence].
    destruct (inv_regex_of_cur s I) as [r Er]; [congruence|].
    change (render n (Node k name bare ends body)) with
      ((n, open_tok k name) :: renders (S n) body ++ [(S n + sizes body, TEnd bare ends)]).
    cbn [run]. rewrite (open_nested s n k name p r I Ec Er Wk).
    set (s1 := ST (Some (length (scopes s))) (p :: sstack s) (r :: estack s) (Some (end_of k)) (none_s s)
                  (scopes s ++ [SC k name n n (Some p)]) (errs s) (labels s) (globals s)).
    assert (I1 : Inv s1).
    { destruct (step_ok s n (open_tok k name) I) as [sx [Hx Ix]]. rewrite (open_nested s n k name p r I Ec Er Wk) in Hx.
      inversion Hx; subst sx. exact Ix. }
    rewrite run_app.
    destruct (list_of_forall body Hbody s1 n (S n) I1) as [s2 [R2 [F2 [I2 [G2 S2]]]]]; [discriminate|exact Wb|].
    rewrite R2.
    destruct F2 as [F2a [F2b [F2c [F2d [F2e [F2f F2g]]]]]]. subst s1. cbn [cur sstack estack eregex none_s errs labels scopes globals] in *.
    destruct s2 as [c2 ss2 es2 er2 ns2 sc2 e2 l2 g2]. cbn [cur sstack estack eregex none_s errs labels scopes globals] in *. subst.
    cbn [run]. rewrite <- app_assoc. cbn [app]. rewrite app_length. cbn [length].
    replace (length (scopes s) + 1) with (S (length (scopes s))) by lia.
    erewrite (end_step (scopes s) k name n (Some p)); try reflexivity; try assumption.
    2:{ intros m Hm. destruct (i_none s I m Hm) as [H _]. exact H. }
    eexists. split; [reflexivity|]. split; [repeat split; auto|]. split.
    + (* the invariant of the final state follows from step_ok on the END step *)
      match goal with |- Inv ?sf =>
        destruct (step_ok (ST (Some (length (scopes s))) (p :: sstack s) (r :: estack s) (Some (end_of k)) (none_s s)
                              ((scopes s ++ [SC k name n n (Some p)]) ++ recss (S (length (scopes s))) (Some (length (scopes s))) (S n) body)
                              (errs s) (labels s) (globals s)) (S n + sizes body) (TEnd bare ends)) as [sx [Hx Ix]] end.
      { rewrite app_length in I2. cbn [length] in I2. replace (length (scopes s) + 1) with (S (length (scopes s))) in I2 by lia. exact I2. }
      rewrite <- app_assoc in Hx. cbn [app] in Hx.
      erewrite (end_step (scopes s) k name n (Some p)) in Hx; try reflexivity; try assumption.
      2:{ intros m Hm. destruct (i_none s I m Hm) as [H _]. exact H. }
      inversion Hx; subst sx. exact Ix.
    + split; [reflexivity|]. cbn [scopes recs]. reflexivity.
Qed.

(* ------------------------------------------------------------------ whole files *)
Definition P_top (t : tree) : Prop :=
  forall s n0 n, Inv s -> cur s = None -> none_s s = None -> wf t = true -> top_ok t = true ->
  exists s', run s n0 (render n t) = Ok s' /\ frame_eq s s' /\ Inv s' /\
             scopes s' = scopes s ++ recs (length (scopes s)) None n t.

Lemma top_ok_tree t : P_top t.
Proof.
  intros s n0 n I Ec En W T. destruct t as [l|k name bare ends body].
  - destruct l; try discriminate. exists s. split; [reflexivity|]. split; [apply frame_refl|]. split; [exact I|]. symmetry; apply app_nil_r.
  - cbn [top_ok] in T. apply negb_true_iff in T.
    cbn [wf] in W. apply andb_true_iff in W as [W Wb]. apply andb_true_iff in W as [Wk We].
    assert (Er : eregex s = None) by (now apply (i_cur_reg s I)).
    pose proof (i_empty s I Ec) as Hss.
    assert (Hes : estack s = []).
    { pose proof (i_len s I) as Hl. rewrite Hss in Hl. destruct (estack s); [reflexivity|discriminate]. }
    change (render n (Node k name bare ends body)) with
      ((n, open_tok k name) :: renders (S n) body ++ [(S n + sizes body, TEnd bare ends)]).
    cbn [run]. rewrite (open_top s n k name Ec Er Wk T).
    set (s1 := ST (Some (length (scopes s))) (sstack s) (estack s) (Some (end_of k)) (none_s s)
                  (scopes s ++ [SC k name n n None]) (errs s) (labels s) (globals s ++ [length (scopes s)])).
    assert (I1 : Inv s1).
    { destruct (step_ok s n (open_tok k name) I) as [sx [Hx Ix]]. rewrite (open_top s n k name Ec Er Wk T) in Hx.
      inversion Hx; subst sx. exact Ix. }
    rewrite run_app.
    destruct (list_of_forall body (proj2 (Forall_forall P_tree body) (fun x _ => tree_ok x)) s1 n (S n) I1) as [s2 [R2 [F2 [I2 [G2 S2]]]]];
      [discriminate|exact Wb|].
    rewrite R2.
    destruct F2 as [F2a [F2b [F2c [F2d [F2e [F2f F2g]]]]]]. subst s1. cbn [cur sstack estack eregex none_s errs labels scopes globals] in *.
    destruct s2 as [c2 ss2 es2 er2 ns2 sc2 e2 l2 g2]. cbn [cur sstack estack eregex none_s errs labels scopes globals] in *. subst.
    cbn [run]. rewrite <- app_assoc. cbn [app]. rewrite app_length. cbn [length].
    replace (length (scopes s) + 1) with (S (length (scopes s))) by lia.
    rewrite Hss, Hes, En.
    erewrite (end_step (scopes s) k name n None); try reflexivity; try assumption.
    2:{ intros m Hm. discriminate. }
    eexists. split; [reflexivity|]. split; [repeat split; auto; congruence|]. split.
    + match goal with |- Inv ?sf =>
        destruct (step_ok (ST (Some (length (scopes s))) [] [] (Some (end_of k)) None
                              ((scopes s ++ [SC k name n n None]) ++ recss (S (length (scopes s))) (Some (length (scopes s))) (S n) body)
                              (errs s) (labels s) (globals s ++ [length (scopes s)])) (S n + sizes body) (TEnd bare ends)) as [sx [Hx Ix]] end.
      { rewrite app_length in I2. cbn [length] in I2. replace (length (scopes s) + 1) with (S (length (scopes s))) in I2 by lia.
        rewrite Hss, Hes, En in I2. exact I2. }
      rewrite <- app_assoc in Hx. cbn [app] in Hx.
      erewrite (end_step (scopes s) k name n None) in Hx; try reflexivity; try assumption.
      2:{ intros m Hm. discriminate. }
      inversion Hx; subst sx. exact Ix.
    + cbn [scopes recs]. reflexivity.
Qed.

Lemma file_ok l : forall s n0 n, Inv s -> cur s = None -> none_s s = None -> wfs l = true -> forallb top_ok l = true ->
  exists s', run s n0 (renders n l) = Ok s' /\ frame_eq s s' /\ Inv s' /\
             scopes s' = scopes s ++ recss (length (scopes s)) None n l.
Proof.
  induction l as [|x r IH]; intros s n0 n I Ec En W T.
  - exists s. split; [reflexivity|]. split; [apply frame_refl|]. split; [exact I|]. symmetry; apply app_nil_r.
  - cbn [wfs] in W. apply andb_true_iff in W as [W1 W2]. cbn [forallb] in T. apply andb_true_iff in T as [T1 T2].
    change (renders n (x :: r)) with (render n x ++ renders (n + size x) r). rewrite run_app.
    destruct (top_ok_tree x s n0 n I Ec En W1 T1) as [s1 [R1 [F1 [I1 S1]]]]. rewrite R1.
    destruct F1 as [Fa [Fb [Fc [Fd [Fe [Ff Fg]]]]]].
    destruct (IH s1 n0 (n + size x) I1 ltac:(congruence) ltac:(congruence) W2 T2) as [s2 [R2 [F2 [I2 S2]]]].
    exists s2. split; [exact R2|]. split; [eapply frame_trans; [|exact F2]; repeat split; auto|]. split; [exact I2|].
    rewrite S2, S1, <- app_assoc. f_equal.
    change (recss (length (scopes s)) None n (x :: r)) with
      (recs (length (scopes s)) None n x ++ recss (length (scopes s) + count x) None (n + size x) r).
    f_equal. now rewrite app_length, length_recs.
Qed.

Theorem outline_records l last : wfs l = true -> forallb top_ok l = true ->
  exists s, parse (renders 1 l) last = Ok s /\ scopes s = recss 0 None 1 l /\ errs s = [] /\ cur s = None.
Proof.
  intros W T. unfold parse.
  destruct (file_ok l init 0 1 inv_init eq_refl eq_refl W T) as [s [R [F [I S]]]]. rewrite R.
  destruct F as [Fa [Fb [Fc [Fd [Fe [Ff Fg]]]]]]. cbn in Fa, Fb, Fe, Ff.
  unfold close_file. rewrite Fb. cbn [length close_all]. rewrite Fa, Fe.
  eexists. split; [reflexivity|]. split; [exact S|]. split; [exact Ff|exact Fa].
Qed.
