(* C11/Model.v -- two mechanisms behind hover and signature help:
   (1) documentation attachment (fortls/parsers/internal/ast.py add_doc / add_scope / add_variable: pending_doc, last_obj);
   (2) the active parameter of signature help (fortls/langserver.py serve_signature: check_optional and the index rule).
   Definitions only. *)
From Coq Require Import ZArith.
From FV Require Import Base.Str.

(* ---- (1) documentation ---- *)
Inductive devent :=
| Fwd (d : nat)        (* a `!>` block: add_doc(text, forward=True) *)
| Back (d : nat)       (* a `!<` / `!!` block or a trailing `!<` comment: add_doc(text) *)
| Obj (e : nat).       (* add_scope / add_variable creates entity e *)

Record dstate := DS { pending : option nat; last : option nat; docs : list (nat * nat) }.   (* docs: entity -> doc, first binding wins *)

Fixpoint dlookup (e : nat) (m : list (nat * nat)) : option nat :=
  match m with [] => None | (k, v) :: r => if k =? e then Some v else dlookup e r end.

Definition dstep (s : dstate) (ev : devent) : dstate :=
  match ev with
  | Fwd d => DS (Some d) (last s) (docs s)
  | Back d => match last s with Some e => DS (pending s) (last s) ((e, d) :: docs s) | None => s end
  | Obj e => match pending s with
             | Some d => DS None (Some e) ((e, d) :: docs s)
             | None => DS None (Some e) (docs s)
             end
  end.
Definition drun (evs : list devent) : dstate := fold_left dstep evs (DS None None []).

Definition doc_ids (evs : list devent) : list nat := flat_map (fun ev => match ev with Fwd d | Back d => [d] | Obj _ => [] end) evs.
Definition obj_ids (evs : list devent) : list nat := flat_map (fun ev => match ev with Obj e => [e] | _ => [] end) evs.

(* ---- (2) active parameter ---- *)
Fixpoint split_on (c : char) (s : str) (acc : str) : list str :=
  match s with
  | [] => [rev acc]
  | x :: r => if N.eqb x c then rev acc :: split_on c r [] else split_on c r (x :: acc)
  end.
Definition split (c : char) (s : str) : list str := split_on c s [].

Fixpoint lstrip (s : str) : str := match s with c :: r => if is_space c then lstrip r else s | [] => [] end.
Definition strip (s : str) : str := rev (lstrip (rev (lstrip s))).

Fixpoint index_of (f : str -> bool) (l : list str) (i : nat) : option nat :=
  match l with [] => None | x :: r => if f x then Some i else index_of f r (S i) end.

(* check_optional(arg, params): `kw = ...` -> index of the first parameter whose label (before any =) equals kw;
   `arg.split("=")` with an empty second piece followed by more is `a == b` *)
Definition check_optional (arg : str) (params : list str) : option nat :=
  match split 61%N arg with
  | kw :: p1 :: rest =>
    if (match p1, rest with [], _ :: _ => true | _, _ => false end) then None          (* `a == b`: a comparison, not `a=` *)
    else let k := lower_str (strip kw) in
         index_of (fun lab => str_eqb (lower_str (match split 61%N lab with x :: _ => x | [] => [] end)) k) params 0
  | _ => None
  end.

Definition last_two (l : list str) : option str * option str :=
  match rev l with [] => (None, None) | x :: [] => (None, Some x) | x :: y :: _ => (Some y, Some x) end.

Definition active_param (args : list str) (params : list str) : nat :=
  let n := length args - 1 in
  match last_two args with
  | (prev, Some cur) =>
    match check_optional cur params with
    | Some i => i
    | None => match prev with
              | Some p => match check_optional p params with Some i => S i | None => n end
              | None => n
              end
    end
  | _ => n
  end.
