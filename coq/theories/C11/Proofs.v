(* C11/Proofs.v *)
From Coq Require Import ZArith Lia.
From FV Require Import Base.Str C11.Model.

(* ---- documentation: every doc block ends up on at most one entity, and only where the rules put it ---- *)
Definition used (s : dstate) : list nat := (match pending s with Some d => [d] | None => [] end) ++ map snd (docs s).

Lemma dlookup_in e m d : dlookup e m = Some d -> In (e, d) m.
Proof.
  induction m as [|[k v] r IH]; cbn; [discriminate|]. destruct (k =? e) eqn:E.
  - intro H. inversion H; subst. apply Nat.eqb_eq in E. subst. now left.
  - intro H. right. now apply IH.
Qed.

(* invariant: no doc id occurs twice among pending and the attached ones; all come from the events seen *)
Definition dinv (seen : list nat) (s : dstate) : Prop := NoDup (used s) /\ incl (used s) seen.

Lemma dstep_inv seen s ev : dinv seen s ->
  (forall d, (ev = Fwd d \/ ev = Back d) -> ~ In d seen) ->
  dinv (seen ++ match ev with Fwd d | Back d => [d] | Obj _ => [] end) (dstep s ev).
Proof.
  intros [Hnd Hinc] Hfresh. unfold dinv, used in *. destruct ev as [d|d|e]; cbn [dstep].
  - (* Fwd: the old pending block is dropped *)
    assert (Hd : ~ In d seen) by (apply Hfresh; now left).
    cbn [pending docs]. split.
    + cbn. constructor.
      * intro H. apply Hd. apply Hinc. apply in_or_app. now right.
      * destruct (pending s); [now inversion Hnd|exact Hnd].
    + intros x [->|H]; [apply in_or_app; right; now left|]. apply in_or_app. left. apply Hinc. apply in_or_app. now right.
  - assert (Hd : ~ In d seen) by (apply Hfresh; now right).
    destruct (last s) as [e|]; cbn [dstep pending docs map snd].
    + split.
      * destruct (pending s) as [pd|]; cbn in *.
        -- inversion Hnd as [|? ? Hni Hnd']; subst. constructor.
           ++ intros [E|H]; [subst; apply Hd; apply Hinc; now left|contradiction].
           ++ constructor; [|exact Hnd']. intro H. apply Hd. apply Hinc. now right.
        -- constructor; [|exact Hnd]. intro H. apply Hd. now apply Hinc.
      * intros x H. apply in_app_or in H as [H|[->|H]].
        -- apply in_or_app. left. apply Hinc. apply in_or_app. now left.
        -- apply in_or_app. right. now left.
        -- apply in_or_app. left. apply Hinc. apply in_or_app. now right.
    + split; [exact Hnd|]. intros x H. apply in_or_app. left. now apply Hinc.
  - rewrite app_nil_r. destruct (pending s) as [d|] eqn:Ep; cbn [pending docs map snd app] in *; split; assumption.
Qed.

Lemma drun_inv : forall evs seen s, dinv seen s -> NoDup (seen ++ doc_ids evs) ->
  dinv (seen ++ doc_ids evs) (fold_left dstep evs s).
Proof.
  induction evs as [|ev r IH]; intros seen s HI Hnd.
  - cbn. rewrite app_nil_r. exact HI.
  - cbn [fold_left].
    assert (E : doc_ids (ev :: r) = match ev with Fwd d | Back d => [d] | Obj _ => [] end ++ doc_ids r) by reflexivity.
    rewrite E in *. set (one := match ev with Fwd d | Back d => [d] | Obj _ => [] end) in *.
    rewrite app_assoc. apply IH.
    + apply dstep_inv; [exact HI|]. intros d Hd Hin.
      assert (Ho : one = [d]) by (destruct Hd as [->| ->]; reflexivity).
      rewrite Ho in Hnd. cbn [app] in Hnd. apply NoDup_remove_2 in Hnd. apply Hnd. apply in_or_app. now left.
    + rewrite <- app_assoc. exact Hnd.
Qed.

Lemma nodup_app_r {A} (a b : list A) : NoDup (a ++ b) -> NoDup b.
Proof. induction a as [|x a IH]; cbn; [auto|]. intro H. inversion H; subst. auto. Qed.

(* the usable form: the docs finally shown (first binding per entity) are pairwise different blocks *)
Lemma nodup_map_snd_inj (m : list (nat * nat)) : NoDup (map snd m) ->
  forall e1 e2 d, In (e1, d) m -> In (e2, d) m -> e1 = e2.
Proof.
  induction m as [|[k v] r IH]; intros Hnd e1 e2 d H1 H2; [contradiction|]. cbn in Hnd. inversion Hnd as [|? ? Hni Hnd']; subst.
  destruct H1 as [E1|H1]; destruct H2 as [E2|H2].
  - congruence.
  - inversion E1; subst. exfalso. apply Hni. apply in_map_iff. exists (e2, d). auto.
  - inversion E2; subst. exfalso. apply Hni. apply in_map_iff. exists (e1, d). auto.
  - eapply IH; eauto.
Qed.

Theorem doc_block_on_one_entity evs e1 e2 d : NoDup (doc_ids evs) ->
  dlookup e1 (docs (drun evs)) = Some d -> dlookup e2 (docs (drun evs)) = Some d -> e1 = e2.
Proof.
  intros Hnd H1 H2.
  assert (HI : dinv ([] ++ doc_ids evs) (drun evs)).
  { unfold drun. apply drun_inv; [|exact Hnd]. split; [constructor|intros x []]. }
  destruct HI as [Hn _]. unfold used in Hn. apply nodup_app_r in Hn.
  eapply nodup_map_snd_inj; eauto using dlookup_in.
Qed.

(* the two attachment rules, one step at a time: a `!>` block goes to the next entity created; a `!<` block to the last one *)
Theorem forward_doc_to_next_entity s d e : dlookup e (docs (dstep (dstep s (Fwd d)) (Obj e))) = Some d.
Proof. cbn. now rewrite Nat.eqb_refl. Qed.

Theorem backward_doc_to_last_entity s e d : last s = Some e -> dlookup e (docs (dstep s (Back d))) = Some d.
Proof. intro H. cbn. rewrite H. cbn. now rewrite Nat.eqb_refl. Qed.

Theorem other_entities_untouched s ev e : (forall d, ev = Back d -> last s <> Some e) -> (ev <> Obj e) ->
  dlookup e (docs (dstep s ev)) = dlookup e (docs s).
Proof.
  intros Hb Ho. destruct ev as [d|d|e']; cbn.
  - reflexivity.
  - destruct (last s) as [l|] eqn:El; [|reflexivity]. cbn. destruct (l =? e) eqn:E; [|reflexivity].
    apply Nat.eqb_eq in E. subst l. exfalso. exact (Hb d eq_refl eq_refl).
  - destruct (pending s); cbn; [|reflexivity]. destruct (e' =? e) eqn:E; [|reflexivity]. apply Nat.eqb_eq in E. subst. congruence.
Qed.

(* ---- active parameter ---- *)
Lemma last_two_snoc l x : snd (last_two (l ++ [x])) = Some x.
Proof. unfold last_two. rewrite rev_app_distr. cbn. destruct (rev l); reflexivity. Qed.

(* by position: when neither the argument under the cursor nor the one before it is `keyword=`, the active parameter is
   the number of commas typed so far *)
Theorem active_by_position args cur params :
  check_optional cur params = None ->
  (match rev args with p :: _ => check_optional p params = None | [] => True end) ->
  active_param (args ++ [cur]) params = length args.
Proof.
  intros Hc Hp. unfold active_param, last_two. rewrite rev_app_distr. cbn [rev app].
  rewrite app_length. cbn [length]. replace (length args + 1 - 1) with (length args) by lia.
  destruct (rev args) as [|p r]; cbn; rewrite Hc; [reflexivity|]. rewrite Hp. reflexivity.
Qed.

(* by keyword: `kw = ...` under the cursor selects the parameter named kw, wherever it stands in the call *)
Theorem active_by_keyword args cur params i :
  check_optional cur params = Some i -> active_param (args ++ [cur]) params = i.
Proof.
  intro Hc. unfold active_param, last_two. rewrite rev_app_distr. cbn [rev app].
  destruct (rev args) as [|p r]; cbn; rewrite Hc; reflexivity.
Qed.

(* after a keyword argument the next positional slot is the one after that keyword *)
Theorem active_after_keyword args prev cur params i :
  check_optional cur params = None -> check_optional prev params = Some i ->
  active_param (args ++ [prev; cur]) params = S i.
Proof.
  intros Hc Hp. unfold active_param, last_two. rewrite rev_app_distr. cbn [rev app]. rewrite Hc, Hp. reflexivity.
Qed.

(* ---- a comparison is not a keyword ---- *)
Lemma split_on_first c : forall a acc r, forallb (fun x => negb (N.eqb x c)) a = true ->
  split_on c (a ++ c :: r) acc = rev (rev a ++ acc) :: split_on c r [].
Proof.
  induction a as [|x a IH]; intros acc r H.
  - cbn. now rewrite N.eqb_refl.
  - cbn [forallb] in H. apply andb_true_iff in H as [Hx Ha]. apply negb_true_iff in Hx.
    cbn [app split_on]. rewrite Hx. etransitivity; [apply (IH (x :: acc) r Ha)|]. cbn [rev]. rewrite <- app_assoc. reflexivity.
Qed.

Lemma split_on_nonempty c : forall s acc, split_on c s acc <> [].
Proof. induction s as [|x s IH]; intro acc; cbn; [discriminate|]. destruct (N.eqb x c); [discriminate|apply IH]. Qed.

Theorem comparison_not_keyword a b params :
  forallb (fun x => negb (N.eqb x 61%N)) a = true -> check_optional (a ++ 61%N :: 61%N :: b) params = None.
Proof.
  intro Ha. unfold check_optional, split. rewrite (split_on_first 61%N a [] (61%N :: b) Ha).
  cbn [split_on]. rewrite N.eqb_refl. cbn [rev].
  destruct (split_on 61%N b []) as [|y ys] eqn:E; [exfalso; exact (split_on_nonempty _ _ _ E)|]. reflexivity.
Qed.
