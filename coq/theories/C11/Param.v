(* C11/Param.v -- read_parameter_value (fortls/parsers/internal/parser.py): the value of a named constant, read from the text
   behind its name with a balanced scan: `[(shape)] [*length] = value [, next entity ...]`.  Model and proofs; tie: harness/props/c11.py
   check_param_reader (the function itself run on generated declaration tails). *)
From Coq Require Import Lia.
From Coq Require Import String.
From FV Require Import Base.Str.

Definition QS : char := 39%N.   (* apostrophe *)
Definition QD : char := 34%N.   (* double quote *)
Definition is_quote (c : char) : bool := N.eqb c QS || N.eqb c QD.
Definition is_open (c : char) : bool := N.eqb c 40 || N.eqb c 91.     (* ( [ *)
Definition is_close (c : char) : bool := N.eqb c 41 || N.eqb c 93.    (* ) ] *)
Definition blank_amp (c : char) : bool := N.eqb c 32 || N.eqb c 9 || N.eqb c 38.   (* blank, tab, ampersand *)

Fixpoint skip_blanks (s : str) : str := match s with c :: r => if blank_amp c then skip_blanks r else s | [] => [] end.

(* skip_group: the text behind the end of the group that opens at the head of the string (depth counts the brackets open so far;
   [] when the group is never closed).  A closing bracket at depth 0 cannot occur: the scan always starts on an opening one. *)
Fixpoint skip_group (s : str) (depth : nat) (quote : option char) : str :=
  match s with
  | [] => []
  | c :: r =>
    match quote with
    | Some q => skip_group r depth (if N.eqb c q then None else quote)
    | None =>
      if is_quote c then skip_group r depth (Some c)
      else if is_open c then skip_group r (S depth) None
      else if is_close c then match depth with 1 => r | S d => skip_group r d None | O => skip_group r O None end
      else skip_group r depth None
    end
  end.

(* the value: everything up to the first `,` or `!` outside brackets and literals *)
Fixpoint scan_value (fuel : nat) (s : str) (quote : option char) : str :=
  match fuel with
  | O => []
  | S f =>
    match s with
    | [] => []
    | c :: r =>
      match quote with
      | Some q => c :: scan_value f r (if N.eqb c q then None else quote)
      | None =>
        if is_quote c then c :: scan_value f r (Some c)
        else if is_open c then
          let rest := skip_group s 0 None in
          firstn (length s - length rest) s ++ scan_value f rest None
        else if N.eqb c 44 || N.eqb c 33 then []
        else c :: scan_value f r None
      end
    end
  end.

(* blank-join of value.replace(ampersand, blank).strip().split() *)
Definition sp (c : char) : bool := is_space c || N.eqb c 38.
Fixpoint words (s : str) (cur : str) : list str :=
  match s with
  | [] => match cur with [] => [] | _ => [rev cur] end
  | c :: r => if sp c then (match cur with [] => words r [] | _ => rev cur :: words r [] end) else words r (c :: cur)
  end.
Fixpoint join_sp (l : list str) : str := match l with [] => [] | [w] => w | w :: r => w ++ 32%N :: join_sp r end.
Definition normalise (s : str) : str := join_sp (words s []).

Fixpoint drop_word (s : str) : str := match s with c :: r => if is_word c then drop_word r else s | [] => [] end.

(* behind the optional shape: `[*length] = value` *)
Definition read_tail (s : str) : option str :=
  let s := match s with
           | c :: r => if N.eqb c 42 then
                         let r := skip_blanks r in
                         skip_blanks (match r with d :: _ => if N.eqb d 40 then skip_group r 0 None else drop_word r | [] => r end)
                       else s
           | [] => s
           end in
  match s with
  | c :: r =>
    if N.eqb c 61 then
      match r with
      | d :: _ => if N.eqb d 62 then None else
                    (match normalise (scan_value (length r) r None) with [] => None | v => Some v end)
      | [] => None
      end
    else None
  | [] => None
  end.

Definition read_parameter_value (text : str) : option str :=
  let s := skip_blanks text in
  read_tail (match s with c :: _ => if N.eqb c 40 then skip_blanks (skip_group s 0 None) else s | [] => s end).

(* ------------------------------------------------------------------ well-formed values *)
Definition plain (c : char) : bool := negb (is_quote c) && negb (is_open c) && negb (is_close c).
Inductive inner_ok : str -> Prop :=      (* balanced, no literals; commas allowed *)
| in_nil : inner_ok []
| in_char c s : plain c = true -> inner_ok s -> inner_ok (c :: s)
| in_group o i c s : is_open o = true -> is_close c = true -> inner_ok i -> inner_ok s -> inner_ok (o :: i ++ c :: s).
Inductive wf_value : str -> Prop :=      (* balanced, no literals, no `,` and no `!` outside brackets *)
| wv_nil : wf_value []
| wv_char c s : plain c = true -> N.eqb c 44 = false -> N.eqb c 33 = false -> wf_value s -> wf_value (c :: s)
| wv_group o i c s : is_open o = true -> is_close c = true -> inner_ok i -> wf_value s -> wf_value (o :: i ++ c :: s).

Lemma open_not_quote c : is_open c = true -> is_quote c = false.
Proof. unfold is_open, is_quote, QS, QD. intro H. apply orb_true_iff in H as [H|H]; apply N.eqb_eq in H; subst; reflexivity. Qed.
Lemma close_facts c : is_close c = true -> is_quote c = false /\ is_open c = false.
Proof. unfold is_close, is_open, is_quote, QS, QD. intro H. apply orb_true_iff in H as [H|H]; apply N.eqb_eq in H; subst; split; reflexivity. Qed.
Lemma plain_facts c : plain c = true -> is_quote c = false /\ is_open c = false /\ is_close c = false.
Proof. unfold plain. intro H. apply andb_true_iff in H as [H H3]. apply andb_true_iff in H as [H1 H2]. repeat split; now apply negb_true_iff. Qed.

Lemma skip_inner i : inner_ok i -> forall d tail, skip_group (i ++ tail) (S d) None = skip_group tail (S d) None.
Proof.
  induction 1 as [|c s Hp _ IH|o i c s Ho Hc _ IHi _ IHs]; intros d tail; [reflexivity| |].
  - destruct (plain_facts c Hp) as (H1 & H2 & H3). cbn [app skip_group]. rewrite H1, H2, H3. apply IH.
  - replace ((o :: i ++ c :: s) ++ tail) with (o :: i ++ c :: s ++ tail) by (cbn; now rewrite <- app_assoc).
    cbn [skip_group]. rewrite (open_not_quote o Ho), Ho. rewrite (IHi (S d) (c :: s ++ tail)).
    destruct (close_facts c Hc) as [H1 H2]. cbn [skip_group]. rewrite H1, H2, Hc. apply IHs.
Qed.

Lemma group_exact o i c tail : is_open o = true -> is_close c = true -> inner_ok i ->
  skip_group (o :: i ++ c :: tail) 0 None = tail.
Proof.
  intros Ho Hc Hi. cbn [skip_group]. rewrite (open_not_quote o Ho), Ho. rewrite (skip_inner i Hi 0 (c :: tail)).
  destruct (close_facts c Hc) as [H1 H2]. cbn [skip_group]. now rewrite H1, H2, Hc.
Qed.

Lemma len_sub {A} (a b : list A) : length (a ++ b) - length b = length a.
Proof. rewrite app_length. lia. Qed.

Lemma firstn_exact {A} (a b : list A) n : n = length a -> firstn n (a ++ b) = a.
Proof. intros ->. rewrite firstn_app, Nat.sub_diag, firstn_all. cbn. apply app_nil_r. Qed.

(* the scan returns exactly the value, whatever follows the comma that ends it *)
Lemma scan_wf v : wf_value v -> forall stop rest fuel, (N.eqb stop 44 || N.eqb stop 33) = true -> length v < fuel ->
  scan_value fuel (v ++ stop :: rest) None = v.
Proof.
  induction 1 as [|c s Hp Hc1 Hc2 _ IH|o i c s Ho Hc Hi _ IH]; intros stop rest fuel Hs Hf.
  - destruct fuel as [|f]; [cbn in Hf; lia|]. cbn [app scan_value].
    assert (Hq : is_quote stop = false /\ is_open stop = false).
    { apply orb_true_iff in Hs as [H|H]; apply N.eqb_eq in H; subst; split; reflexivity. }
    destruct Hq as [H1 H2]. now rewrite H1, H2, Hs.
  - destruct fuel as [|f]; [cbn in Hf; lia|]. destruct (plain_facts c Hp) as (H1 & H2 & _).
    cbn [app scan_value]. rewrite H1, H2, Hc1, Hc2. cbn [orb]. f_equal. apply IH; [exact Hs|cbn in Hf; lia].
  - destruct fuel as [|f]; [cbn in Hf; lia|].
    change ((o :: i ++ c :: s) ++ stop :: rest) with (o :: (i ++ c :: s) ++ stop :: rest). rewrite <- app_assoc.
    change ((c :: s) ++ stop :: rest) with (c :: s ++ stop :: rest).
    cbn [scan_value]. rewrite (open_not_quote o Ho), Ho.
    rewrite (group_exact o i c (s ++ stop :: rest) Ho Hc Hi).
    rewrite (IH stop rest f Hs) by (cbn in Hf; rewrite app_length in Hf; cbn in Hf; lia).
    replace (o :: i ++ c :: s ++ stop :: rest) with ((o :: i ++ [c]) ++ s ++ stop :: rest) by (cbn; now rewrite <- app_assoc).
    rewrite firstn_exact; [cbn; now rewrite <- app_assoc|].
    apply len_sub.
Qed.

Lemma skip_blanks_blanks n s : skip_blanks (repeat 32%N n ++ s) = skip_blanks s.
Proof. induction n as [|n IH]; [reflexivity|]. cbn. exact IH. Qed.

Definition head_not (c : char) (s : str) : Prop := match s with d :: _ => N.eqb d c = false | [] => True end.

Lemma tail_read v stop rest : wf_value v -> head_not 62%N v -> normalise v <> [] ->
  (N.eqb stop 44 || N.eqb stop 33) = true ->
  read_tail (61%N :: v ++ stop :: rest) = Some (normalise v).
Proof.
  intros Hw Hh Hn Hs. unfold read_tail. cbn [N.eqb Pos.eqb].
  assert (Hd : match v ++ stop :: rest with d :: _ => N.eqb d 62 = false | [] => True end).
  { destruct v as [|d v']; [|exact Hh]. cbn. apply orb_true_iff in Hs as [H|H]; apply N.eqb_eq in H; subst; reflexivity. }
  destruct (v ++ stop :: rest) as [|d r'] eqn:E; [destruct v; discriminate|]. rewrite Hd. rewrite <- E.
  rewrite (scan_wf v Hw stop rest (length (v ++ stop :: rest)) Hs) by (rewrite app_length; cbn; lia).
  destruct (normalise v) eqn:En; [contradiction|reflexivity].
Qed.

(* `name = value, next ...` / `name = value ! comment`: the value is read back whole, for every well-formed value *)
Theorem value_read lead v stop rest : wf_value v -> head_not 62%N v -> normalise v <> [] ->
  (N.eqb stop 44 || N.eqb stop 33) = true ->
  read_parameter_value (repeat 32%N lead ++ 61%N :: v ++ stop :: rest) = Some (normalise v).
Proof.
  intros Hw Hh Hn Hs. unfold read_parameter_value. rewrite skip_blanks_blanks. cbn [skip_blanks blank_amp N.eqb Pos.eqb orb].
  now apply tail_read.
Qed.

(* an array constant: `name(shape) = value`, the shape is passed over *)
Theorem value_read_array lead shape gap v stop rest : inner_ok shape -> wf_value v -> head_not 62%N v -> normalise v <> [] ->
  (N.eqb stop 44 || N.eqb stop 33) = true ->
  read_parameter_value (repeat 32%N lead ++ 40%N :: shape ++ 41%N :: repeat 32%N gap ++ 61%N :: v ++ stop :: rest) = Some (normalise v).
Proof.
  intros Hsh Hw Hh Hn Hs. unfold read_parameter_value. rewrite skip_blanks_blanks.
  cbn [skip_blanks blank_amp N.eqb Pos.eqb orb].
  rewrite (group_exact 40%N shape 41%N _ eq_refl eq_refl Hsh). rewrite skip_blanks_blanks.
  cbn [skip_blanks blank_amp N.eqb Pos.eqb orb]. now apply tail_read.
Qed.

Example param_examples :
  read_parameter_value (s2l " = 2*(3+4), n2 = max(1, 2)"%string) = Some (s2l "2*(3+4)"%string) /\
  read_parameter_value (s2l "(3) = [1, 2, 3], brr(2) = (/ 4, 5 /)"%string) = Some (s2l "[1, 2, 3]"%string) /\
  read_parameter_value (s2l "*3 = 'x!y'"%string) = Some (s2l "'x!y'"%string) /\
  read_parameter_value (s2l " = 1 + &  2 ! note"%string) = Some (s2l "1 + 2"%string) /\
  read_parameter_value (s2l " => null()"%string) = None /\ read_parameter_value (s2l ", other"%string) = None /\
  read_parameter_value (s2l " = selected_real_kind(12, 200)"%string) = Some (s2l "selected_real_kind(12, 200)"%string).
Proof. vm_compute. repeat split. Qed.
