(* C11/ParenMatch.v -- find_paren_match (fortls/helper_functions.py): the position of the parenthesis that closes the one
   just read, looking forward; parentheses inside character literals do not count, and inside a literal the other quote
   character is ordinary text.  Used by the readers of declarations (`character(len=len("can't")) :: x`), of WHERE and of
   ASSOCIATE.  Model and proofs; tie: harness/props/c11.py check_paren_match (the function itself on generated
   parenthesised texts and on arbitrary strings). *)
From Coq Require Import Lia.
From FV Require Import Base.Str.

Definition QS : char := 39%N.
Definition QD : char := 34%N.
Definition LPAR : char := 40%N.
Definition RPAR : char := 41%N.
Definition is_quote (c : char) : bool := N.eqb c QS || N.eqb c QD.

(* count: parentheses open (the one just read included); i: position of the head of s; None = -1 *)
Fixpoint scan (s : str) (count : nat) (quote : option char) (i : nat) : option nat :=
  match s with
  | [] => None
  | c :: r =>
    match quote with
    | Some q => scan r count (if N.eqb c q then None else quote) (S i)
    | None =>
      if is_quote c then scan r count (Some c) (S i)
      else if N.eqb c LPAR then scan r (S count) None (S i)
      else if N.eqb c RPAR then match count with 1 => Some i | S k => scan r k None (S i) | O => Some i end
      else scan r count None (S i)
    end
  end.

Definition find_paren_match (s : str) : option nat := scan s 1 None 0.

(* the rule of the pinned revision: one flag per quote character, toggled whenever that character is seen *)
Fixpoint scan_pinned (s : str) (count : nat) (qs qd : bool) (i : nat) : option nat :=
  match s with
  | [] => None
  | c :: r =>
    let qs' := if N.eqb c QS then negb qs else qs in
    let qd' := if N.eqb c QD then negb qd else qd in
    if qs' || qd' then scan_pinned r count qs' qd' (S i)
    else if N.eqb c LPAR then scan_pinned r (S count) qs' qd' (S i)
    else if N.eqb c RPAR then match count with 1 => Some i | S k => scan_pinned r k qs' qd' (S i) | O => Some i end
    else scan_pinned r count qs' qd' (S i)
  end.

(* what stands between the parentheses: parentheses balanced, literals closed *)
Fixpoint bal (d : nat) (q : option char) (s : str) : bool :=
  match s with
  | [] => Nat.eqb d 0 && match q with None => true | Some _ => false end
  | c :: r =>
    match q with
    | Some q' => bal d (if N.eqb c q' then None else q) r
    | None =>
      if is_quote c then bal d (Some c) r
      else if N.eqb c LPAR then bal (S d) None r
      else if N.eqb c RPAR then match d with O => false | S d' => bal d' None r end
      else bal d None r
    end
  end.

Definition inner (s : str) : bool := bal 0 None s.

Lemma scan_inner a : forall d q t base i, bal d q a = true ->
  scan (a ++ t) (S base + d) q i = scan t (S base) None (i + length a).
Proof.
  induction a as [|c a IH]; intros d q t base i H.
  - simpl in H. apply andb_true_iff in H as [Hd Hq]. apply Nat.eqb_eq in Hd. subst d. destruct q; [discriminate|].
    cbn [app length]. rewrite !Nat.add_0_r. reflexivity.
  - cbn [bal] in H. cbn [app scan length]. replace (i + S (length a)) with (S i + length a) by lia. destruct q as [q'|].
    + apply IH. exact H.
    + destruct (is_quote c); [apply IH; exact H|].
      destruct (N.eqb c LPAR).
      * replace (S (S base + d)) with (S base + S d) by lia. apply IH. exact H.
      * destruct (N.eqb c RPAR); [|apply IH; exact H].
        destruct d as [|d']; [discriminate|].
        replace (S base + S d') with (S (S base + d')) by lia. cbn [Nat.add].
        change (S (base + d')) with (S base + d'). apply IH. exact H.
Qed.

(* For every text between the parentheses (nested parentheses, literals holding parentheses and the other quote) and
   everything behind: the closing parenthesis is found right behind that text. *)
Theorem closing_parenthesis_found a rest : inner a = true ->
  find_paren_match (a ++ RPAR :: rest) = Some (length a).
Proof.
  intros H. unfold find_paren_match.
  change 1 with (S 0 + 0). rewrite (scan_inner a 0 None (RPAR :: rest) 0 0 H). reflexivity.
Qed.

(* len=len("can't")) :: x *)
Definition witness_inner : str := [108; 101; 110; 61; 108; 101; 110; 40; 34; 99; 97; 110; 39; 116; 34; 41]%N.
Definition witness_rest : str := [32; 58; 58; 32; 120]%N.

Lemma pinned_refuted : inner witness_inner = true /\
  scan_pinned (witness_inner ++ RPAR :: witness_rest) 1 false false 0 = None /\
  find_paren_match (witness_inner ++ RPAR :: witness_rest) = Some 16.
Proof. repeat split; vm_compute; reflexivity. Qed.
