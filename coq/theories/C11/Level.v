(* C11/Level.v -- which argument the cursor is in (serve_signature / get_sub_name, fortls/langserver.py):
     arg_string, _ = get_paren_level(line_prefix); arg_string = strip_strings(arg_string); arg_string.split(",")
   get_paren_level (fortls/helper_functions.py) walks BACKWARD from the cursor to the parenthesis that is still open and keeps
   the text of that level: nested groups are dropped with their parentheses, literals are walked over.  strip_strings then
   removes the literals, and the commas that are left separate the arguments written so far.
   Model (on the reversed prefix) and proofs; tie: harness/props/c11.py check_level (get_paren_level and strip_strings
   themselves on generated call prefixes and arbitrary strings). *)
From Coq Require Import Lia.
From FV Require Import Base.Str.

Definition QS : char := 39%N.
Definition QD : char := 34%N.
Definition COMMA : char := 44%N.
Definition LPAR : char := 40%N.
Definition RPAR : char := 41%N.
Definition is_quote (c : char) : bool := N.eqb c QS || N.eqb c QD.
Definition is_open (c : char) : bool := N.eqb c 40 || N.eqb c 91.     (* ( [ *)
Definition is_close (c : char) : bool := N.eqb c 41 || N.eqb c 93.    (* ) ] *)

(* s: the prefix, last character first; level: closed groups we are inside of; q: the literal we are inside of;
   out: the text of the level, collected front to back *)
Fixpoint lvl (s : str) (level : nat) (q : option char) (out : str) : str :=
  match s with
  | [] => out
  | c :: r =>
    let keep := match level with O => c :: out | _ => out end in
    match q with
    | Some q' => lvl r level (if N.eqb c q' then None else q) keep
    | None =>
      if is_open c then match level with O => out | S l => lvl r l None out end
      else if is_close c then lvl r (S level) None out
      else if is_quote c then lvl r level (Some c) keep
      else lvl r level None keep
    end
  end.

Definition paren_level (prefix : str) : str := lvl (rev prefix) 0 None [].

(* strip_strings without maintain_len: literals are removed, left to right; a quote opens a literal only when the same
   quote occurs again further on *)
Fixpoint has (q : char) (s : str) : bool := match s with [] => false | c :: r => N.eqb c q || has q r end.

Fixpoint remove (st : option char) (s : str) : str :=
  match s with
  | [] => []
  | c :: r =>
    match st with
    | Some q => remove (if N.eqb c q then None else st) r
    | None => if is_quote c && has c r then remove (Some c) r else c :: remove None r
    end
  end.

Definition count_commas (s : str) : nat := length (filter (N.eqb COMMA) s).

(* len(arg_string.split(",")) - 1: the index of the argument the cursor is in *)
Definition argument_index (prefix : str) : nat := count_commas (remove None (paren_level prefix)).

(* ---- what is written between the open parenthesis and the cursor ---- *)
Inductive item :=
| Ch (c : char)                    (* an ordinary character *)
| Lit (q : char) (body : str)      (* a character literal *)
| Grp (o : char) (inner : str) (c : char).   (* a nested group: a call, an array section, a constructor *)

Definition render_item (i : item) : str :=
  match i with Ch c => [c] | Lit q b => q :: b ++ [q] | Grp o inner c => o :: inner ++ [c] end.
Definition render_arg (a : list item) : str := concat (map render_item a).

(* the inside of a nested group, read backwards: every group opened (by a closing bracket) is closed again, literals closed *)
Fixpoint mbal (k : nat) (q : option char) (r : str) : bool :=
  match r with
  | [] => Nat.eqb k 0 && match q with None => true | Some _ => false end
  | c :: r' =>
    match q with
    | Some q' => mbal k (if N.eqb c q' then None else q) r'
    | None =>
      if is_open c then match k with O => false | S k' => mbal k' None r' end
      else if is_close c then mbal (S k) None r'
      else if is_quote c then mbal k (Some c) r'
      else mbal k None r'
    end
  end.

Definition plain (c : char) : bool := negb (is_quote c) && negb (is_open c) && negb (is_close c) && negb (N.eqb c COMMA).

Definition item_ok (i : item) : bool :=
  match i with
  | Ch c => plain c
  | Lit q b => is_quote q && negb (has q b)
  | Grp o inner c => is_open o && is_close c && mbal 0 None (rev inner)
  end.

Definition arg_ok (a : list item) : bool := forallb item_ok a.

Fixpoint join_comma (l : list str) : str :=
  match l with
  | [] => []
  | [a] => a
  | a :: r => a ++ COMMA :: join_comma r
  end.

(* the level text of one argument: groups dropped *)
Definition top_item (i : item) : str := match i with Grp _ _ _ => [] | _ => render_item i end.
Definition top_arg (a : list item) : str := concat (map top_item a).

(* ---- proofs: the backward walk ---- *)

Lemma lvl_group r : forall k q t base out, mbal k q r = true ->
  lvl (r ++ t) (S (base + k)) q out = lvl t (S base) None out.
Proof.
  induction r as [|c r IH]; intros k q t base out H.
  - simpl in H. apply andb_true_iff in H as [Hk Hq]. apply Nat.eqb_eq in Hk. subst k. destruct q; [discriminate|].
    rewrite Nat.add_0_r. reflexivity.
  - cbn [mbal] in H. cbn [app lvl]. destruct q as [q'|].
    + apply IH. exact H.
    + destruct (is_open c).
      * destruct k as [|k']; [discriminate|]. rewrite Nat.add_succ_r. apply IH. exact H.
      * destruct (is_close c).
        -- replace (S (S (base + k))) with (S (base + S k)) by lia.
           apply IH. exact H.
        -- destruct (is_quote c); apply IH; exact H.
Qed.

Lemma has_rev q s : has q (rev s) = has q s.
Proof.
  induction s as [|c s IH]; [reflexivity|]. cbn [rev has].
  assert (Happ : forall a b, has q (a ++ b) = has q a || has q b).
  { intros a b. induction a as [|x a IHa]; simpl; [reflexivity|]. rewrite IHa. apply orb_assoc. }
  rewrite Happ, IH. simpl. rewrite orb_false_r. apply orb_comm.
Qed.

(* inside a literal, walking back to its opening quote *)
Lemma lvl_literal_body b : forall q t out, has q b = false ->
  lvl (b ++ q :: t) 0 (Some q) out = lvl t 0 None (q :: rev b ++ out).
Proof.
  induction b as [|c b IH]; intros q t out H.
  - cbn [app lvl]. rewrite N.eqb_refl. reflexivity.
  - simpl in H. apply orb_false_iff in H as [Hc Hb]. cbn [app lvl]. rewrite Hc.
    rewrite (IH q t (c :: out) Hb). cbn [rev]. rewrite <- app_assoc. reflexivity.
Qed.

Lemma rev_render_item_lit q b : rev (render_item (Lit q b)) = q :: rev b ++ [q].
Proof. cbn [render_item rev]. rewrite rev_app_distr. reflexivity. Qed.

Lemma quote_not_paren c : is_quote c = true -> is_open c = false /\ is_close c = false.
Proof.
  unfold is_quote, is_open, is_close, QS, QD. intros H. apply orb_true_iff in H as [H|H]; apply N.eqb_eq in H; subst c; split; reflexivity.
Qed.

Lemma lvl_item i : forall t out, item_ok i = true ->
  lvl (rev (render_item i) ++ t) 0 None out = lvl t 0 None (top_item i ++ out).
Proof.
  destruct i as [c|q b|o inner c]; intros t out H; cbn [item_ok] in H.
  - unfold plain in H. apply andb_true_iff in H as [H H4]. apply andb_true_iff in H as [H H3]. apply andb_true_iff in H as [H1 H2].
    apply negb_true_iff in H1, H2, H3. cbn [render_item rev app lvl top_item]. rewrite H2, H3, H1. reflexivity.
  - apply andb_true_iff in H as [Hq Hb]. apply negb_true_iff in Hb.
    rewrite rev_render_item_lit. cbn [app lvl]. destruct (quote_not_paren q Hq) as [Ho Hc]. rewrite Ho, Hc, Hq.
    rewrite <- app_assoc. cbn [app].
    rewrite (lvl_literal_body (rev b) q t (q :: out)); [|rewrite has_rev; exact Hb].
    rewrite rev_involutive. cbn [top_item render_item app]. rewrite <- app_assoc. reflexivity.
  - apply andb_true_iff in H as [H Hm]. apply andb_true_iff in H as [Ho Hc].
    cbn [render_item rev]. rewrite rev_app_distr. cbn [rev app]. rewrite <- app_assoc. cbn [app lvl].
    assert (Hco : is_open c = false).
    { unfold is_close in Hc. unfold is_open. apply orb_true_iff in Hc as [Hc|Hc]; apply N.eqb_eq in Hc; subst c; reflexivity. }
    rewrite Hco, Hc.
    change 1 with (S (0 + 0)). rewrite (lvl_group (rev inner) 0 None _ 0 out Hm).
    cbn [lvl]. rewrite Ho. reflexivity.
Qed.

Lemma lvl_arg a : forall t out, arg_ok a = true ->
  lvl (rev (render_arg a) ++ t) 0 None out = lvl t 0 None (top_arg a ++ out).
Proof.
  unfold render_arg, top_arg, arg_ok.
  induction a as [|i a IH]; intros t out H; [reflexivity|].
  cbn [forallb] in H. apply andb_true_iff in H as [Hi Ha].
  cbn [map concat]. rewrite rev_app_distr, <- app_assoc.
  rewrite (IH _ out Ha). rewrite (lvl_item i t _ Hi). rewrite app_assoc. reflexivity.
Qed.

Lemma app_assoc_cons {A} (a : list A) c b o : (a ++ c :: b) ++ o = a ++ c :: b ++ o.
Proof. rewrite <- app_assoc. reflexivity. Qed.

Lemma lvl_comma t out : lvl (COMMA :: t) 0 None out = lvl t 0 None (COMMA :: out).
Proof. reflexivity. Qed.

Lemma lvl_args l : forall t out, l <> [] -> Forall (fun a => arg_ok a = true) l ->
  lvl (rev (join_comma (map render_arg l)) ++ t) 0 None out = lvl t 0 None (join_comma (map top_arg l) ++ out).
Proof.
  induction l as [|a r IH]; intros t out Hne Hall; [congruence|].
  inversion Hall as [|x y Ha Hr]; subst.
  destruct r as [|b r].
  - cbn [map join_comma]. apply lvl_arg. exact Ha.
  - change (join_comma (map render_arg (a :: b :: r))) with (render_arg a ++ COMMA :: join_comma (map render_arg (b :: r))).
    change (join_comma (map top_arg (a :: b :: r))) with (top_arg a ++ COMMA :: join_comma (map top_arg (b :: r))).
    rewrite rev_app_distr. cbn [rev]. rewrite <- !app_assoc. cbn [app].
    etransitivity; [apply (IH _ out); [discriminate | exact Hr]|].
    rewrite lvl_comma. etransitivity; [apply (lvl_arg a t _ Ha)|].
    reflexivity.
Qed.

(* Behind any text `pre` and an opening parenthesis, the arguments written so far: the level text is the arguments without
   their nested groups, whatever stands in front of the parenthesis. *)
Theorem level_text pre o l : is_open o = true -> l <> [] -> Forall (fun a => arg_ok a = true) l ->
  paren_level (pre ++ o :: join_comma (map render_arg l)) = join_comma (map top_arg l).
Proof.
  intros Ho Hne Hall. unfold paren_level. rewrite rev_app_distr. cbn [rev]. rewrite <- !app_assoc.
  rewrite (lvl_args l _ [] Hne Hall). cbn [app lvl]. rewrite Ho. apply app_nil_r.
Qed.

(* ---- proofs: removing the literals, counting the commas ---- *)

Definition bare_item (i : item) : str := match i with Ch c => [c] | _ => [] end.
Definition bare_arg (a : list item) : str := concat (map bare_item a).

Lemma has_app q a b : has q (a ++ b) = has q a || has q b.
Proof. induction a as [|x a IHa]; simpl; [reflexivity|]. rewrite IHa. apply orb_assoc. Qed.

Lemma remove_body b : forall q t, has q b = false -> remove (Some q) (b ++ q :: t) = remove None t.
Proof.
  induction b as [|c b IH]; intros q t H.
  - cbn [app remove]. rewrite N.eqb_refl. reflexivity.
  - simpl in H. apply orb_false_iff in H as [Hc Hb]. cbn [app remove]. rewrite Hc. apply IH. exact Hb.
Qed.

Lemma remove_item i t : item_ok i = true -> remove None (top_item i ++ t) = bare_item i ++ remove None t.
Proof.
  destruct i as [c|q b|o inner c]; intros H; cbn [item_ok] in H.
  - unfold plain in H. apply andb_true_iff in H as [H _]. apply andb_true_iff in H as [H _]. apply andb_true_iff in H as [H1 _].
    apply negb_true_iff in H1. cbn [top_item render_item app remove bare_item]. rewrite H1. reflexivity.
  - apply andb_true_iff in H as [Hq Hb]. apply negb_true_iff in Hb.
    cbn [top_item render_item app remove bare_item]. rewrite Hq.
    assert (Hh : has q ((b ++ [q]) ++ t) = true).
    { rewrite !has_app. simpl. rewrite N.eqb_refl. rewrite orb_true_r. reflexivity. }
    rewrite Hh. cbn [andb]. rewrite <- app_assoc. cbn [app]. apply remove_body. exact Hb.
  - reflexivity.
Qed.

Lemma remove_arg a t : arg_ok a = true -> remove None (top_arg a ++ t) = bare_arg a ++ remove None t.
Proof.
  unfold top_arg, bare_arg, arg_ok. induction a as [|i a IH]; intros H; [reflexivity|].
  cbn [forallb] in H. apply andb_true_iff in H as [Hi Ha]. cbn [map concat]. rewrite <- !app_assoc.
  rewrite (remove_item i _ Hi). rewrite (IH Ha). reflexivity.
Qed.

Lemma remove_comma t : remove None (COMMA :: t) = COMMA :: remove None t.
Proof. reflexivity. Qed.

Lemma remove_args l : l <> [] -> Forall (fun a => arg_ok a = true) l ->
  remove None (join_comma (map top_arg l)) = join_comma (map bare_arg l).
Proof.
  induction l as [|a r IH]; intros Hne Hall; [congruence|].
  inversion Hall as [|x y Ha Hr]; subst.
  destruct r as [|b r].
  - cbn [map join_comma]. rewrite <- (app_nil_r (top_arg a)). rewrite (remove_arg a [] Ha). apply app_nil_r.
  - change (join_comma (map top_arg (a :: b :: r))) with (top_arg a ++ COMMA :: join_comma (map top_arg (b :: r))).
    change (join_comma (map bare_arg (a :: b :: r))) with (bare_arg a ++ COMMA :: join_comma (map bare_arg (b :: r))).
    rewrite (remove_arg a _ Ha), remove_comma. f_equal. f_equal. apply IH; [discriminate | exact Hr].
Qed.

Lemma count_app a b : count_commas (a ++ b) = count_commas a + count_commas b.
Proof. unfold count_commas. rewrite filter_app, app_length. reflexivity. Qed.

Lemma bare_no_comma a : arg_ok a = true -> count_commas (bare_arg a) = 0.
Proof.
  unfold bare_arg, arg_ok. induction a as [|i a IH]; intros H; [reflexivity|].
  cbn [forallb] in H. apply andb_true_iff in H as [Hi Ha]. cbn [map concat]. rewrite count_app, (IH Ha), Nat.add_0_r.
  destruct i as [c|q b|o inner c]; try reflexivity.
  cbn [item_ok] in Hi. unfold plain in Hi. apply andb_true_iff in Hi as [_ Hc]. apply negb_true_iff in Hc.
  unfold count_commas. cbn [bare_item filter]. rewrite N.eqb_sym, Hc. reflexivity.
Qed.

Lemma count_join l : l <> [] -> Forall (fun a => arg_ok a = true) l ->
  count_commas (join_comma (map bare_arg l)) = length l - 1.
Proof.
  induction l as [|a r IH]; intros Hne Hall; [congruence|].
  inversion Hall as [|x y Ha Hr]; subst.
  destruct r as [|b r].
  - cbn [map join_comma length]. rewrite (bare_no_comma a Ha). reflexivity.
  - change (join_comma (map bare_arg (a :: b :: r))) with (bare_arg a ++ COMMA :: join_comma (map bare_arg (b :: r))).
    rewrite count_app, (bare_no_comma a Ha). change (COMMA :: ?x) with ([COMMA] ++ x).
    replace (COMMA :: join_comma (map bare_arg (b :: r))) with ([COMMA] ++ join_comma (map bare_arg (b :: r))) by reflexivity.
    rewrite count_app. rewrite (IH ltac:(discriminate) Hr). cbn [length]. unfold count_commas at 1. cbn [filter]. rewrite N.eqb_refl. cbn [length]. lia.
Qed.

(* The cursor stands in argument number (arguments written so far - 1), counted from 0: nested calls, array sections and
   constructors with commas of their own, and literals holding commas, parentheses or the other quote do not count. *)
Theorem argument_index_counts_arguments pre o l : is_open o = true -> l <> [] -> Forall (fun a => arg_ok a = true) l ->
  argument_index (pre ++ o :: join_comma (map render_arg l)) = length l - 1.
Proof.
  intros Ho Hne Hall. unfold argument_index. rewrite (level_text pre o l Ho Hne Hall).
  rewrite (remove_args l Hne Hall). apply count_join; assumption.
Qed.

Example level_nonvacuous :
  (* call s(a, f(1,2), 'x,(' , [3,4]   -- four arguments, the cursor is in the fourth *)
  let l := [[Ch 97]; [Ch 32; Ch 102; Grp 40 [49; 44; 50] 41]; [Ch 32; Lit 39 [120; 44; 40]; Ch 32]; [Ch 32; Grp 91 [51; 44; 52] 93]]%N in
  Forall (fun a => arg_ok a = true) l /\
  argument_index ([99; 97; 108; 108; 32; 115]%N ++ LPAR :: join_comma (map render_arg l)) = 3.
Proof. split; [repeat constructor | vm_compute; reflexivity]. Qed.
