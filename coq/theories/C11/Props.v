(* C11/Props.v -- property C11, the part carried by theorems: documentation blocks are attached to exactly one entity by
   the two rules, and the active parameter of signature help follows position or `keyword=`.  Statements only. *)
From Coq Require Import ZArith String.
From FV Require C11.DefList C11.Level C11.ParenMatch.
From FV Require Import Base.Str C11.Model C11.Proofs.

(* "exactly the documentation comment attached to that entity and to no other": for every sequence of documentation blocks and
   entity creations, no block is shown on two entities *)
Theorem doc_on_one_entity_only evs e1 e2 d : NoDup (doc_ids evs) ->
  dlookup e1 (docs (drun evs)) = Some d -> dlookup e2 (docs (drun evs)) = Some d -> e1 = e2.
Proof. exact (doc_block_on_one_entity evs e1 e2 d). Qed.
Print Assumptions doc_on_one_entity_only.

(* a `!>` block documents the next entity created; a `!<`/`!!` block the one created last; nothing else changes *)
Theorem doc_before_goes_to_next s d e : dlookup e (docs (dstep (dstep s (Fwd d)) (Obj e))) = Some d.
Proof. exact (forward_doc_to_next_entity s d e). Qed.
Print Assumptions doc_before_goes_to_next.

Theorem doc_after_goes_to_last s e d : last s = Some e -> dlookup e (docs (dstep s (Back d))) = Some d.
Proof. exact (backward_doc_to_last_entity s e d). Qed.
Print Assumptions doc_after_goes_to_last.

Theorem doc_of_others_unchanged s ev e : (forall d, ev = Back d -> last s <> Some e) -> (ev <> Obj e) ->
  dlookup e (docs (dstep s ev)) = dlookup e (docs s).
Proof. exact (other_entities_untouched s ev e). Qed.
Print Assumptions doc_of_others_unchanged.

(* signature help: active parameter by position ... *)
Theorem active_parameter_by_position args cur params :
  check_optional cur params = None ->
  (match rev args with p :: _ => check_optional p params = None | [] => True end) ->
  active_param (args ++ [cur]) params = length args.
Proof. exact (active_by_position args cur params). Qed.
Print Assumptions active_parameter_by_position.

(* ... or by `keyword=`, wherever the argument stands *)
Theorem active_parameter_by_keyword args cur params i :
  check_optional cur params = Some i -> active_param (args ++ [cur]) params = i.
Proof. exact (active_by_keyword args cur params i). Qed.
Print Assumptions active_parameter_by_keyword.

Theorem active_parameter_after_keyword args prev cur params i :
  check_optional cur params = None -> check_optional prev params = Some i -> active_param (args ++ [prev; cur]) params = S i.
Proof. exact (active_after_keyword args prev cur params i). Qed.
Print Assumptions active_parameter_after_keyword.

(* a pre-documentation block followed by a trailing one on the same declaration: only the trailing one is shown
   (known finding C11:doc-before-and-after) *)
Theorem C11_refuted_two_docs_one_entity :
  dlookup 7 (docs (drun [Fwd 1; Obj 7; Back 2])) = Some 2.
Proof. reflexivity. Qed.
Print Assumptions C11_refuted_two_docs_one_entity.

(* a positional argument that is a comparison (`a == 1`) is not read as the keyword `a=`, whatever the parameters are called *)
Theorem comparison_is_not_a_keyword : forall a b params,
  forallb (fun x => negb (N.eqb x 61%N)) a = true -> check_optional (a ++ 61%N :: 61%N :: b) params = None.
Proof. exact comparison_not_keyword. Qed.
Print Assumptions comparison_is_not_a_keyword.

Example C11_nonvacuous :
  let ps := [s2l "n"; s2l "x"; s2l "tol=tol"; s2l "verbose=verbose"] in
  active_param [s2l "5"; s2l " y"; s2l " "] ps = 2 /\
  active_param [s2l "5"; s2l " VERBOSE = .true."] ps = 3 /\
  active_param [s2l "5"; s2l " tol=1.0"; s2l " "] ps = 3 /\
  check_optional (s2l " Tol = 1") ps = Some 2 /\
  check_optional (s2l " n == 1") ps = None /\ check_optional (s2l "tol=n==0") ps = Some 2 /\ check_optional (s2l " x =") ps = Some 1 /\
  active_param [s2l "5"; s2l " n == 1"; s2l " "] ps = 2 /\
  map (fun e => dlookup e (docs (drun [Fwd 1; Obj 10; Obj 11; Back 2; Fwd 3; Fwd 4; Obj 12]))) [10; 11; 12] = [Some 1; Some 2; Some 4].
Proof. vm_compute. repeat split. Qed.
Print Assumptions C11_nonvacuous.

(* the value of a named constant (C11/Param.v, read_parameter_value): for every well-formed value -- balanced parentheses and brackets,
   no comma or `!` outside them -- and whatever follows the comma or comment that ends it, hover restates the value (up to blanks);
   also behind the shape of an array constant *)
From FV Require Import C11.Param.
Theorem parameter_value_restated : forall lead v stop rest, wf_value v -> head_not 62%N v -> normalise v <> [] ->
  (N.eqb stop 44 || N.eqb stop 33) = true ->
  read_parameter_value (repeat 32%N lead ++ 61%N :: v ++ stop :: rest) = Some (normalise v).
Proof. exact value_read. Qed.
Print Assumptions parameter_value_restated.

Theorem array_parameter_value_restated : forall lead shape gap v stop rest, inner_ok shape -> wf_value v -> head_not 62%N v -> normalise v <> [] ->
  (N.eqb stop 44 || N.eqb stop 33) = true ->
  read_parameter_value (repeat 32%N lead ++ 40%N :: shape ++ 41%N :: repeat 32%N gap ++ 61%N :: v ++ stop :: rest) = Some (normalise v).
Proof. exact value_read_array. Qed.
Print Assumptions array_parameter_value_restated.

(* non-vacuity: 2*(3+4) is a well-formed value *)
Example parameter_value_nonvacuous :
  wf_value (s2l " 2*(3+4)") /\ read_parameter_value (s2l " = 2*(3+4), n2 = max(1, 2)") = Some (s2l "2*(3+4)").
Proof.
  split; [|vm_compute; reflexivity].
  change (s2l " 2*(3+4)") with ([32; 50; 42]%N ++ 40%N :: [51; 43; 52]%N ++ 41%N :: []).
  repeat (apply wv_char; [reflexivity|reflexivity|reflexivity|]). cbn [app].
  apply (wv_group 40%N [51; 43; 52]%N 41%N []); [reflexivity|reflexivity| |constructor].
  repeat (apply in_char; [reflexivity|]). constructor.
Qed.
Print Assumptions parameter_value_nonvacuous.

(* "per-entity declarations": for every set of blank characters and every list of entities (parentheses and brackets balanced,
   no comma outside them, not blank) written with commas between them, the entity reader returns the entities one by one,
   in order, each without the blanks around it -- array specifications, constructors and initialisations included *)
Theorem declaration_entities_read_back : forall isb l,
  l <> [] -> Forall (fun e => DefList.entity isb e = true) l ->
  DefList.separate isb (DefList.join_comma l) = Some (map (DefList.trim isb) l).
Proof. exact DefList.entities_read_back. Qed.
Print Assumptions declaration_entities_read_back.

Example declaration_entities_nonvacuous :
  let l := [[118; 97; 114]; [32; 105; 40; 51; 41; 32; 61; 32; 91; 49; 44; 50; 44; 51; 93]; [32; 97; 40; 51; 44; 51; 41; 32]]%N in
  Forall (fun e => DefList.entity DefList.ascii_blank e = true) l /\
  DefList.separate DefList.ascii_blank (DefList.join_comma l)
  = Some [[118; 97; 114]; [105; 40; 51; 41; 32; 61; 32; 91; 49; 44; 50; 44; 51; 93]; [97; 40; 51; 44; 51; 41]]%N.
Proof. exact DefList.def_list_nonvacuous. Qed.
Print Assumptions declaration_entities_nonvacuous.

(* "the active parameter is the argument index": behind any text and an opening parenthesis or bracket, with any number of
   arguments written so far -- ordinary characters, literals (holding commas, parentheses, the other quote) and nested groups
   (calls, sections, constructors with commas of their own) -- the index computed from the line is the number of arguments
   written so far minus one *)
Theorem argument_index_is_number_of_arguments_written : forall pre o l,
  Level.is_open o = true -> l <> [] -> Forall (fun a => Level.arg_ok a = true) l ->
  Level.argument_index (pre ++ o :: Level.join_comma (map Level.render_arg l)) = length l - 1.
Proof. exact Level.argument_index_counts_arguments. Qed.
Print Assumptions argument_index_is_number_of_arguments_written.

(* the text of the level: the arguments without their nested groups, whatever stands in front of the parenthesis *)
Theorem level_text_drops_nested_groups : forall pre o l,
  Level.is_open o = true -> l <> [] -> Forall (fun a => Level.arg_ok a = true) l ->
  Level.paren_level (pre ++ o :: Level.join_comma (map Level.render_arg l)) = Level.join_comma (map Level.top_arg l).
Proof. exact Level.level_text. Qed.
Print Assumptions level_text_drops_nested_groups.

Example argument_index_nonvacuous :
  let l := [[Level.Ch 97]; [Level.Ch 32; Level.Ch 102; Level.Grp 40 [49; 44; 50] 41];
            [Level.Ch 32; Level.Lit 39 [120; 44; 40]; Level.Ch 32]; [Level.Ch 32; Level.Grp 91 [51; 44; 52] 93]]%N in
  Forall (fun a => Level.arg_ok a = true) l /\
  Level.argument_index ([99; 97; 108; 108; 32; 115]%N ++ Level.LPAR :: Level.join_comma (map Level.render_arg l)) = 3.
Proof. exact Level.level_nonvacuous. Qed.
Print Assumptions argument_index_nonvacuous.

(* the selector of a declaration is read up to its closing parenthesis: for every text between the parentheses (nested
   parentheses, literals holding parentheses and the other quote character) and everything behind it *)
Theorem closing_parenthesis_of_a_selector_found : forall a rest,
  ParenMatch.inner a = true -> ParenMatch.find_paren_match (a ++ ParenMatch.RPAR :: rest) = Some (length a).
Proof. exact ParenMatch.closing_parenthesis_found. Qed.
Print Assumptions closing_parenthesis_of_a_selector_found.

(* the rule of the pinned revision (one flag per quote character, toggled) loses the parenthesis behind "can't" *)
Theorem C11_refuted_quote_flags_toggled :
  ParenMatch.inner ParenMatch.witness_inner = true /\
  ParenMatch.scan_pinned (ParenMatch.witness_inner ++ ParenMatch.RPAR :: ParenMatch.witness_rest) 1 false false 0 = None /\
  ParenMatch.find_paren_match (ParenMatch.witness_inner ++ ParenMatch.RPAR :: ParenMatch.witness_rest) = Some 16.
Proof. exact ParenMatch.pinned_refuted. Qed.
Print Assumptions C11_refuted_quote_flags_toggled.
