(* C11/DefList.v -- separate_def_list (fortls/helper_functions.py): the entities of a declaration (`a(2,3), b = [1,2], c`) are the
   pieces between commas outside parentheses and brackets, each with the blanks around it removed; the text has had its
   character literals removed before (strip_strings).  Model of the scan and proofs; tie: harness/props/c11.py
   check_def_list (the function itself on generated entity lists and on arbitrary strings). *)
From Coq Require Import ZArith Lia.
From FV Require Import Base.Str.

Definition COMMA : char := 44%N.
Definition is_open (c : char) : bool := N.eqb c 40 || N.eqb c 91.     (* ( [ *)
Definition is_close (c : char) : bool := N.eqb c 41 || N.eqb c 93.    (* ) ] *)

Section DefList.
(* the characters str.strip() removes: the theorems hold for every such set *)
Variable isb : char -> bool.

Fixpoint ltrim (s : str) : str := match s with c :: r => if isb c then ltrim r else s | [] => [] end.
Definition trim (s : str) : str := rev (ltrim (rev (ltrim s))).

Definition nonempty (w : str) : bool := match w with [] => false | _ => true end.

(* cur: the piece being read, reversed; acc: the entities found, last first.  The parenthesis count may become negative. *)
Fixpoint sep (s : str) (depth : Z) (cur : str) (acc : list str) : option (list str) :=
  match s with
  | [] => let w := trim (rev cur) in Some (rev (if nonempty w then w :: acc else acc))
  | c :: r =>
    if is_open c then sep r (depth + 1) (c :: cur) acc
    else if is_close c then sep r (depth - 1) (c :: cur) acc
    else if N.eqb c COMMA && Z.eqb depth 0 then
      let w := trim (rev cur) in
      if nonempty w then sep r 0 [] (w :: acc)
      else match acc with [] => None | _ => sep r 0 [] acc end
    else sep r depth (c :: cur) acc
  end.

Definition separate (s : str) : option (list str) := sep s 0 [] [].

(* an entity: parentheses and brackets balanced, no comma outside them *)
Fixpoint bal (d : Z) (s : str) : bool :=
  match s with
  | [] => Z.eqb d 0
  | c :: r =>
    if is_open c then bal (d + 1) r
    else if is_close c then (0 <? d)%Z && bal (d - 1) r
    else if N.eqb c COMMA && Z.eqb d 0 then false
    else bal d r
  end.

Definition entity (e : str) : bool := bal 0 e && nonempty (trim e).

Fixpoint join_comma (l : list str) : str :=
  match l with
  | [] => []
  | [a] => a
  | a :: r => a ++ COMMA :: join_comma r
  end.

(* ---- proofs ---- *)

Lemma sep_entity a : forall d t cur acc, bal d a = true -> sep (a ++ t) d cur acc = sep t 0 (rev a ++ cur) acc.
Proof.
  induction a as [|c a IH]; intros d t cur acc H.
  - simpl in H. apply Z.eqb_eq in H. subst d. reflexivity.
  - cbn [bal] in H. cbn [app sep]. destruct (is_open c).
    + rewrite (IH _ t (c :: cur) acc H). cbn [rev]. rewrite <- app_assoc. reflexivity.
    + destruct (is_close c).
      * apply andb_true_iff in H as [_ H]. rewrite (IH _ t (c :: cur) acc H). cbn [rev]. rewrite <- app_assoc. reflexivity.
      * destruct (N.eqb c COMMA && Z.eqb d 0); [discriminate|].
        rewrite (IH _ t (c :: cur) acc H). cbn [rev]. rewrite <- app_assoc. reflexivity.
Qed.

Lemma sep_join l : forall acc, l <> [] -> Forall (fun e => entity e = true) l ->
  sep (join_comma l) 0 [] acc = Some (rev acc ++ map trim l).
Proof.
  induction l as [|a r IH]; intros acc Hne Hall; [congruence|].
  inversion Hall as [|x y Ha Hr]; subst. unfold entity in Ha. apply andb_true_iff in Ha as [Hb Hn].
  destruct r as [|b r].
  - cbn [join_comma]. rewrite <- (app_nil_r a) at 1. rewrite (sep_entity a 0 [] [] acc Hb).
    cbn [sep]. rewrite app_nil_r, rev_involutive, Hn. cbn [rev map]. reflexivity.
  - change (join_comma (a :: b :: r)) with (a ++ COMMA :: join_comma (b :: r)).
    rewrite (sep_entity a 0 _ [] acc Hb). rewrite app_nil_r.
    cbn [sep]. change (is_open COMMA) with false. change (is_close COMMA) with false. rewrite N.eqb_refl. cbn [andb Z.eqb].
    rewrite rev_involutive, Hn.
    etransitivity; [apply (IH (trim a :: acc)); [discriminate | exact Hr]|].
    cbn [rev map]. rewrite <- app_assoc. reflexivity.
Qed.

(* The entities of a declaration are read back one by one, in order, each without the blanks around it, whatever array
   specifications, constructors and initialisations they carry. *)
Theorem entities_read_back l : l <> [] -> Forall (fun e => entity e = true) l ->
  separate (join_comma l) = Some (map trim l).
Proof. intros Hne Hall. unfold separate. rewrite (sep_join l [] Hne Hall). reflexivity. Qed.

Corollary entity_count l : l <> [] -> Forall (fun e => entity e = true) l ->
  exists out, separate (join_comma l) = Some out /\ length out = length l.
Proof. intros Hne Hall. exists (map trim l). split; [apply entities_read_back; assumption | apply map_length]. Qed.

End DefList.

Definition ascii_blank (c : char) : bool := N.eqb c 32 || N.eqb c 9.

Example def_list_nonvacuous :
  (* var, init_var(3) = [1,2,3], array(3,3) *)
  let l := [[118; 97; 114]; [32; 105; 40; 51; 41; 32; 61; 32; 91; 49; 44; 50; 44; 51; 93]; [32; 97; 40; 51; 44; 51; 41; 32]]%N in
  Forall (fun e => entity ascii_blank e = true) l /\
  separate ascii_blank (join_comma l) = Some [[118; 97; 114]; [105; 40; 51; 41; 32; 61; 32; 91; 49; 44; 50; 44; 51; 93]; [97; 40; 51; 44; 51; 41]]%N.
Proof. split; [repeat constructor | vm_compute; reflexivity]. Qed.
