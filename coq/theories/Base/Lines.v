(* Base/Lines.v -- model of fortls.parsers.internal.parser.splitlines:
     re.split(r"\n|\r\n?", text)
   as a one-character state machine folded over the text, and the glue lemma. *)
From FV Require Import Base.Str.

Record lstate := LS { ls_done : list str; ls_cur : str; ls_cr : bool }.

Definition lstep (s : lstate) (c : char) : lstate :=
  if N.eqb c LF then
    if ls_cr s then LS (ls_done s) (ls_cur s) false
    else LS (ls_done s ++ [ls_cur s]) [] false
  else if N.eqb c CR then LS (ls_done s ++ [ls_cur s]) [] true
  else LS (ls_done s) (ls_cur s ++ [c]) false.

Definition lrun (s : lstate) (t : str) : lstate := fold_left lstep t s.
Definition lfinish (s : lstate) : list str := ls_done s ++ [ls_cur s].
Definition linit : lstate := LS [] [] false.

Definition splitlines (t : str) : list str := lfinish (lrun linit t).

(* join the last line of [a] with the first line of [b] *)
Definition prepend_first (cur : str) (l : list str) : list str :=
  match l with [] => [cur] | x :: xs => (cur ++ x) :: xs end.

Definition glue (la lb : list str) : list str :=
  removelast la ++ prepend_first (last la []) lb.

Definition ends_cr (a : str) : bool :=
  match last_opt a with Some c => N.eqb c CR | None => false end.
Definition starts_lf (b : str) : bool :=
  match b with c :: _ => N.eqb c LF | [] => false end.
(* the junction a|b is clean when no CR of a is immediately followed by an LF of b *)
Definition clean (a b : str) : bool := negb (ends_cr a && starts_lf b).
