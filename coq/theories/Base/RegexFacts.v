(* Base/RegexFacts.v -- facts about the matcher, proved once for every expression and string. *)
From Coq Require Import ZifyBool.
From FV Require Import Base.Str Base.Regex.

Section Bound.
Variable ci : bool.
Variable s : str.

Definition span_ok (x : nat * (nat * nat)) : Prop := fst (snd x) <= snd (snd x) <= length s.
Definition caps_ok (cp : caps) : Prop := Forall span_ok cp.

(* the conclusion shape shared by the lemmas: the continuation was entered at some j >= i *)
Definition entered {A} (i : nat) (k : nat -> caps -> option A) (x : A) : Prop :=
  exists j cp', i <= j <= length s /\ caps_ok cp' /\ k j cp' = Some x.

Lemma sloop_bound {A} (step : nat -> caps -> (nat -> caps -> option A) -> option A) g k :
  (forall i cp k' x, i <= length s -> caps_ok cp -> step i cp k' = Some x -> entered i k' x) ->
  forall fuel i cp x, i <= length s -> caps_ok cp ->
  sloop step g k fuel i cp = Some x -> entered i k x.
Proof.
  intros Hstep. induction fuel as [|f IH]; intros i cp x Hi Hc H; cbn [sloop] in H.
  - exists i, cp. repeat split; auto.
  - set (iter := step i cp (fun j cp' => if j <=? i then None else sloop step g k f j cp')) in H.
    assert (Hiter : forall y, iter = Some y -> entered i k y).
    { intros y Hy. unfold iter in Hy. apply Hstep in Hy; auto.
      destruct Hy as [j [cp' [Hj [Hc' Hk]]]].
      destruct (j <=? i) eqn:E; [discriminate|].
      apply IH in Hk; [|lia|assumption].
      destruct Hk as [j2 [cp2 [Hj2 [Hc2 Hk2]]]]. exists j2, cp2. repeat split; auto; lia. }
    destruct g.
    + destruct iter as [y|] eqn:E.
      * inversion H; subst. now apply Hiter.
      * exists i, cp. repeat split; auto.
    + destruct (k i cp) as [y|] eqn:E.
      * inversion H; subst. exists i, cp. repeat split; auto.
      * now apply Hiter.
Qed.

Lemma at_some_lt i c : at_ s i = Some c -> i < length s.
Proof. unfold at_. intro H. apply nth_error_Some. congruence. Qed.

Lemma m_bound {A} (r : re) : forall i cp (k : nat -> caps -> option A) x,
  i <= length s -> caps_ok cp -> m ci s r i cp k = Some x -> entered i k x.
Proof.
  induction r as [| neg cs | | a IHa b IHb | a IHa b IHb | g r IH | n r IH | r IH | | | |];
    intros i cp k x Hi Hc H; cbn [m] in H.
  - exists i, cp. repeat split; auto.
  - destruct (at_ s i) as [c|] eqn:E; [|discriminate]. apply at_some_lt in E.
    destruct (in_class ci neg cs c); [|discriminate]. exists (S i), cp. repeat split; auto; lia.
  - destruct (at_ s i) as [c|] eqn:E; [|discriminate]. apply at_some_lt in E.
    destruct (N.eqb c LF); [discriminate|]. exists (S i), cp. repeat split; auto; lia.
  - apply IHa in H; auto. destruct H as [j [cp' [Hj [Hc' Hk]]]].
    apply IHb in Hk; [|lia|assumption]. destruct Hk as [j2 [cp2 [Hj2 [Hc2 Hk2]]]].
    exists j2, cp2. repeat split; auto; lia.
  - destruct (m ci s a i cp k) as [y|] eqn:E.
    + inversion H; subst. eapply IHa; eauto.
    + eapply IHb; eauto.
  - eapply sloop_bound; eauto.
  - apply IH in H; auto. destruct H as [j [cp' [Hj [Hc' Hk]]]].
    exists j, ((n, (i, j)) :: cp'). repeat split; auto; try lia.
    constructor; [unfold span_ok; cbn; lia|assumption].
  - destruct (m ci s r i cp (fun _ _ => Some tt)); [discriminate|].
    exists i, cp. repeat split; auto.
  - destruct (i =? 0); [|discriminate]. exists i, cp. repeat split; auto.
  - destruct (eol s i); [|discriminate]. exists i, cp. repeat split; auto.
  - destruct (wordb s i); [|discriminate]. exists i, cp. repeat split; auto.
  - discriminate.
Qed.

(* every span produced by match / search / finditer lies inside the string *)
Lemma match_at_bound r i j cp : i <= length s -> match_at ci s r i = Some (j, cp) ->
  i <= j <= length s /\ caps_ok cp.
Proof.
  intros Hi H. unfold match_at in H. apply m_bound in H; auto; [|constructor].
  destruct H as [j' [cp' [Hj [Hc Hk]]]]. inversion Hk; subst. auto.
Qed.

Lemma search_from_bound r : forall fuel i a b cp, i + fuel <= length s ->
  search_from ci s r fuel i = Some (a, b, cp) -> i <= a /\ a <= b <= length s /\ caps_ok cp.
Proof.
  induction fuel as [|f IH]; intros i a b cp Hi H; cbn [search_from] in H.
  - destruct (match_at ci s r i) as [[j c]|] eqn:E; [|discriminate]. inversion H; subst.
    apply match_at_bound in E; [|lia]. intuition lia.
  - destruct (match_at ci s r i) as [[j c]|] eqn:E.
    + inversion H; subst. apply match_at_bound in E; [|lia]. intuition lia.
    + apply IH in H; [|lia]. intuition lia.
Qed.

Lemma search_bound r a b cp : search ci s r = Some (a, b, cp) -> a <= b <= length s /\ caps_ok cp.
Proof. unfold search. intro H. apply search_from_bound in H; [|lia]. intuition. Qed.

(* finditer: spans are inside the string, ordered and pairwise disjoint *)
Inductive chain : nat -> list (nat * nat * caps) -> Prop :=
| chain_nil p : chain p []
| chain_cons p a b cp l : p <= a -> a <= b <= length s -> caps_ok cp -> chain (max b (if b <=? a then S a else b)) l ->
    chain p ((a, b, cp) :: l).

Lemma finditer_from_chain r : forall fuel i, chain i (finditer_from ci s r fuel i).
Proof.
  induction fuel as [|f IH]; intro i; cbn [finditer_from]; [constructor|].
  destruct (length s <? i) eqn:E; [constructor|]. apply Nat.ltb_ge in E.
  destruct (search_from ci s r (length s - i) i) as [[[a b] cp]|] eqn:Es; [|constructor].
  apply search_from_bound in Es; [|lia]. destruct Es as [H1 [H2 H3]].
  constructor; auto.
  replace (Nat.max b (if b <=? a then S a else b)) with (if b <=? a then S a else b).
  - apply IH.
  - destruct (b <=? a) eqn:E2; [apply Nat.leb_le in E2|apply Nat.leb_gt in E2]; lia.
Qed.

Lemma finditer_chain r : chain 0 (finditer ci s r).
Proof. apply finditer_from_chain. Qed.

(* consequences in the usual form *)
Lemma chain_bounds p l : chain p l -> Forall (fun x => p <= fst (fst x) /\ fst (fst x) <= snd (fst x) <= length s) l.
Proof.
  induction 1 as [|p a b cp l H1 H2 H3 H4 IH]; constructor.
  - cbn. lia.
  - eapply Forall_impl; [|exact IH]. intros [[u v] c] [Hu Hv]. cbn in *. split; [|exact Hv].
    destruct (b <=? a); lia.
Qed.

Lemma chain_sorted p l : chain p l ->
  forall x y l1 l2, l = (l1 ++ x :: y :: l2)%list -> snd (fst x) <= fst (fst y).
Proof.
  induction 1 as [|p a b cp l H1 H2 H3 H4 IH]; intros x y l1 l2 E.
  - destruct l1; discriminate.
  - destruct l1 as [|z l1]; cbn [app] in E.
    + inversion E; subst. cbn. inversion H4 as [|? a' b' cp' l' Ha' ? ? ?]; subst. cbn. lia.
    + inversion E; subst. eapply IH; reflexivity.
Qed.
End Bound.

(* ------------------------------------------------------------------ flag I: letter case of the subject is irrelevant *)
Definition case_variant (s s' : str) : Prop := map to_lower s = map to_lower s'.

Lemma lower_upper_cases c : c = to_lower c \/ c = to_upper c.
Proof. unfold to_lower, to_upper, is_upper, is_lower. destruct ((65 <=? c)%N && (c <=? 90)%N) eqn:E; [right|left]; [|reflexivity].
  destruct ((97 <=? c)%N && (c <=? 122)%N) eqn:E2; [lia|reflexivity]. Qed.

Lemma upper_of_lower_eq c c' : to_lower c = to_lower c' -> to_upper c = to_upper c'.
Proof.
  unfold to_lower, to_upper, is_upper, is_lower.
  destruct ((65 <=? c)%N && (c <=? 90)%N) eqn:E1; destruct ((65 <=? c')%N && (c' <=? 90)%N) eqn:E2;
  destruct ((97 <=? c)%N && (c <=? 122)%N) eqn:E3; destruct ((97 <=? c')%N && (c' <=? 122)%N) eqn:E4; lia.
Qed.

Lemma is_word_lower_eq c c' : to_lower c = to_lower c' -> is_word c = is_word c'.
Proof.
  unfold to_lower, is_word, is_alpha, is_upper, is_lower, is_digit.
  destruct ((65 <=? c)%N && (c <=? 90)%N) eqn:E1; destruct ((65 <=? c')%N && (c' <=? 90)%N) eqn:E2; intro H; lia.
Qed.

Lemma lf_lower_eq c c' : to_lower c = to_lower c' -> N.eqb c LF = N.eqb c' LF.
Proof.
  unfold to_lower, is_upper, LF.
  destruct ((65 <=? c)%N && (c <=? 90)%N) eqn:E1; destruct ((65 <=? c')%N && (c' <=? 90)%N) eqn:E2; intro H; lia.
Qed.

Lemma in_class_ci_eq neg cs c c' : to_lower c = to_lower c' ->
  in_class true neg cs c = in_class true neg cs c'.
Proof.
  intro H. unfold in_class. f_equal.
  pose proof (upper_of_lower_eq c c' H) as Hu.
  induction cs as [|x cs IH]; [reflexivity|]. cbn [existsb]. rewrite IH. f_equal.
  cbn [andb]. rewrite <- H, <- Hu.
  destruct (lower_upper_cases c) as [E|E]; destruct (lower_upper_cases c') as [E'|E'].
  - rewrite E' at 1. rewrite <- H. rewrite E at 1. reflexivity.
  - rewrite E' at 1. rewrite <- Hu. rewrite E at 1.
    destruct (in_cset x (to_lower c)); destruct (in_cset x (to_upper c)); reflexivity.
  - rewrite E' at 1. rewrite <- H. rewrite E at 1.
    destruct (in_cset x (to_lower c)); destruct (in_cset x (to_upper c)); reflexivity.
  - rewrite E' at 1. rewrite <- Hu. rewrite E at 1. reflexivity.
Qed.

Section CaseInv.
Variables s s' : str.
Hypothesis V : case_variant s s'.

Lemma cv_length : length s = length s'.
Proof. unfold case_variant in V. rewrite <- (map_length to_lower s), V. apply map_length. Qed.

Lemma cv_at i : match at_ s i, at_ s' i with
                | Some c, Some c' => to_lower c = to_lower c'
                | None, None => True
                | _, _ => False
                end.
Proof.
  unfold at_. pose proof (f_equal (fun l => nth_error l i) V) as H. cbn beta in H.
  rewrite !nth_error_map in H.
  destruct (nth_error s i), (nth_error s' i); cbn in H; try discriminate; [congruence|exact I].
Qed.

Lemma cv_wordat i : wordat s i = wordat s' i.
Proof.
  unfold wordat. pose proof (cv_at i) as H.
  destruct (at_ s i), (at_ s' i); try contradiction; [now apply is_word_lower_eq|reflexivity].
Qed.

Lemma cv_wordb i : wordb s i = wordb s' i.
Proof. unfold wordb. destruct i; now rewrite ?cv_wordat. Qed.

Lemma cv_eol i : eol s i = eol s' i.
Proof.
  unfold eol. rewrite cv_length. pose proof (cv_at i) as H.
  destruct (at_ s i), (at_ s' i); try contradiction; [|reflexivity].
  now rewrite (lf_lower_eq _ _ H).
Qed.

Lemma sloop_ext {A} (st1 st2 : nat -> caps -> (nat -> caps -> option A) -> option A) g k1 k2 :
  (forall i cp ka kb, (forall j c, ka j c = kb j c) -> st1 i cp ka = st2 i cp kb) ->
  (forall j c, k1 j c = k2 j c) ->
  forall fuel i cp, sloop st1 g k1 fuel i cp = sloop st2 g k2 fuel i cp.
Proof.
  intros Hs Hk. induction fuel as [|f IH]; intros i cp; cbn [sloop]; [apply Hk|].
  rewrite (Hs i cp _ (fun j cp' => if j <=? i then None else sloop st2 g k2 f j cp')).
  - rewrite Hk. reflexivity.
  - intros j c. destruct (j <=? i); [reflexivity|apply IH].
Qed.

Lemma m_case_variant (r : re) : forall A i cp (k1 k2 : nat -> caps -> option A),
  (forall j c, k1 j c = k2 j c) -> m true s r i cp k1 = m true s' r i cp k2.
Proof.
  induction r as [| neg cs | | a IHa b IHb | a IHa b IHb | g r IH | n r IH | r IH | | | |];
    intros A i cp k1 k2 Hk; cbn [m].
  - apply Hk.
  - pose proof (cv_at i) as H. destruct (at_ s i), (at_ s' i); try contradiction; [|reflexivity].
    rewrite (in_class_ci_eq neg cs _ _ H). destruct (in_class true neg cs c0); [apply Hk|reflexivity].
  - pose proof (cv_at i) as H. destruct (at_ s i), (at_ s' i); try contradiction; [|reflexivity].
    rewrite (lf_lower_eq _ _ H). destruct (N.eqb c0 LF); [reflexivity|apply Hk].
  - apply IHa. intros j c. now apply IHb.
  - rewrite (IHa A i cp k1 k2 Hk), (IHb A i cp k1 k2 Hk). reflexivity.
  - rewrite cv_length. apply sloop_ext; [|exact Hk]. intros i0 cp0 ka kb Hab. now apply IH.
  - apply IH. intros j c. apply Hk.
  - rewrite (IH unit i cp (fun _ _ => Some tt) (fun _ _ => Some tt)) by reflexivity.
    destruct (m true s' r i cp (fun _ _ => Some tt)); [reflexivity|apply Hk].
  - destruct (i =? 0); [apply Hk|reflexivity].
  - rewrite cv_eol. destruct (eol s' i); [apply Hk|reflexivity].
  - rewrite cv_wordb. destruct (wordb s' i); [apply Hk|reflexivity].
  - reflexivity.
Qed.

(* with flag I, match / search / finditer give the same result (end, spans, captures) on s and
   on any letter-case variant of s *)
Theorem match_at_case_variant r i : match_at true s r i = match_at true s' r i.
Proof. unfold match_at. now apply m_case_variant. Qed.

Theorem search_from_case_variant r : forall fuel i, search_from true s r fuel i = search_from true s' r fuel i.
Proof.
  induction fuel as [|f IH]; intro i; cbn [search_from]; rewrite match_at_case_variant; [reflexivity|].
  destruct (match_at true s' r i) as [[j c]|]; [reflexivity|apply IH].
Qed.

Theorem search_case_variant r : search true s r = search true s' r.
Proof. unfold search. rewrite cv_length. apply search_from_case_variant. Qed.

Theorem finditer_case_variant r : finditer true s r = finditer true s' r.
Proof.
  unfold finditer. rewrite cv_length. generalize (S (length s')) as fuel. generalize 0 as i.
  intros i fuel. revert i. induction fuel as [|f IH]; intro i; cbn [finditer_from]; [reflexivity|].
  rewrite cv_length, search_from_case_variant.
  destruct (length s' <? i); [reflexivity|].
  destruct (search_from true s' r (length s' - i) i) as [[[a b] c]|]; [|reflexivity].
  now rewrite IH.
Qed.
End CaseInv.
