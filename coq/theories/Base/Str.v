(* Base/Str.v -- characters are code points (N), strings are lists of them. *)
From Coq Require Export List NArith Arith Bool Lia.
Export ListNotations.

Definition char := N.
Definition str := list char.

Definition LF : char := 10%N.
Definition CR : char := 13%N.
Definition TAB : char := 9%N.
Definition SP : char := 32%N.

Definition ceqb (a b : char) : bool := N.eqb a b.

Fixpoint str_eqb (a b : str) : bool :=
  match a, b with
  | [], [] => true
  | x :: a', y :: b' => N.eqb x y && str_eqb a' b'
  | _, _ => false
  end.

Lemma str_eqb_eq a b : str_eqb a b = true <-> a = b.
Proof.
  revert b; induction a as [|x a IH]; intros [|y b]; simpl; split; intro H;
    try congruence; try discriminate.
  - apply andb_true_iff in H as [H1 H2]. apply N.eqb_eq in H1. apply IH in H2. congruence.
  - inversion H; subst. rewrite N.eqb_refl. simpl. apply IH. reflexivity.
Qed.

Fixpoint list_eqb {A} (eqb : A -> A -> bool) (a b : list A) : bool :=
  match a, b with
  | [], [] => true
  | x :: a', y :: b' => eqb x y && list_eqb eqb a' b'
  | _, _ => false
  end.

Lemma list_eqb_eq {A} (eqb : A -> A -> bool) :
  (forall x y, eqb x y = true <-> x = y) ->
  forall a b, list_eqb eqb a b = true <-> a = b.
Proof.
  intros He a; induction a as [|x a IH]; intros [|y b]; simpl; split; intro H;
    try congruence; try discriminate.
  - apply andb_true_iff in H as [H1 H2]. apply He in H1. apply IH in H2. congruence.
  - inversion H; subst. apply andb_true_iff. split; [apply He | apply IH]; reflexivity.
Qed.

Definition lines_eqb := list_eqb str_eqb.

Lemma lines_eqb_eq a b : lines_eqb a b = true <-> a = b.
Proof. apply list_eqb_eq. apply str_eqb_eq. Qed.

(* Python slices with clamping: s[:n] = firstn n s, s[n:] = skipn n s *)

Definition last_opt {A} (l : list A) : option A :=
  match rev l with [] => None | x :: _ => Some x end.

Definition is_lower (c : char) : bool := (97 <=? c)%N && (c <=? 122)%N.
Definition is_upper (c : char) : bool := (65 <=? c)%N && (c <=? 90)%N.
Definition is_digit (c : char) : bool := (48 <=? c)%N && (c <=? 57)%N.
Definition is_alpha (c : char) : bool := is_lower c || is_upper c.
Definition is_word (c : char) : bool := is_alpha c || is_digit c || (c =? 95)%N.
Definition to_lower (c : char) : char := if is_upper c then (c + 32)%N else c.
Definition to_upper (c : char) : char := if is_lower c then (c - 32)%N else c.
(* Python str.isspace()/\s on ASCII: \t\n\v\f\r, FS GS RS US, space *)
Definition is_space (c : char) : bool :=
  ((9 <=? c)%N && (c <=? 13)%N) || ((28 <=? c)%N && (c <=? 32)%N).

Definition lower_str (s : str) : str := map to_lower s.
Definition upper_str (s : str) : str := map to_upper s.

(* string literals: s2l "abc" = [97;98;99] *)
From Coq Require Import String Ascii.
Definition s2l (s : string) : str := List.map N_of_ascii (list_ascii_of_string s).

Fixpoint prefixb (p s : str) : bool :=
  match p, s with
  | [], _ => true
  | x :: p', y :: s' => N.eqb x y && prefixb p' s'
  | _ :: _, [] => false
  end.

Lemma prefixb_app p s : prefixb p (p ++ s) = true.
Proof. induction p as [|x p IH]; simpl; [reflexivity|]. now rewrite N.eqb_refl. Qed.
