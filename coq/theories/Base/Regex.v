(* Base/Regex.v -- a backtracking regular-expression matcher with CPython's priority
   semantics (leftmost, alternatives in order, greedy/lazy repetition, captures as spans,
   negative look-ahead, ^ $ \b, flag I), for the feature subset used by fortls
   (DESIGN.md 3.3).  Patterns are produced by harness/translators/regex.py from CPython's
   own re._parser tree.  Definitions only. *)
From FV Require Import Base.Str.

Inductive cset :=
| CLit (c : char) | CRange (lo hi : char)
| CWord | CDigit | CSpace | CNotWord | CNotDigit | CNotSpace.

Inductive re :=
| Eps
| Chr (neg : bool) (cs : list cset)   (* a character class; a literal is Chr false [CLit c] *)
| Any                                 (* . : anything but LF *)
| Cat (a b : re)
| Alt (a b : re)
| Star (greedy : bool) (r : re)
| Grp (n : nat) (r : re)              (* capturing group number n *)
| NLook (r : re)                      (* (?!r) *)
| Bol | Eol | Wordb
| RUnknown.                           (* an opcode the translator does not support *)

Definition caps := list (nat * (nat * nat)).   (* most recent first *)

Definition in_cset (s : cset) (c : char) : bool :=
  match s with
  | CLit x => N.eqb x c
  | CRange lo hi => (lo <=? c)%N && (c <=? hi)%N
  | CWord => is_word c
  | CDigit => is_digit c
  | CSpace => is_space c
  | CNotWord => negb (is_word c)
  | CNotDigit => negb (is_digit c)
  | CNotSpace => negb (is_space c)
  end.

(* flag I: a character matches a set item when it, its lower case or its upper case does;
   negation is applied afterwards ([^a] with I rejects A) *)
Definition in_class (ci neg : bool) (cs : list cset) (c : char) : bool :=
  xorb neg (existsb (fun s => in_cset s c || (ci && (in_cset s (to_lower c) || in_cset s (to_upper c)))) cs).

Section Matcher.
Variable ci : bool.
Variable s : str.

Definition at_ (i : nat) : option char := nth_error s i.
Definition wordat (i : nat) : bool := match at_ i with Some c => is_word c | None => false end.
Definition wordb (i : nat) : bool :=
  xorb (match i with O => false | S j => wordat j end) (wordat i).
(* $ : at the end, or before a final LF *)
Definition eol (i : nat) : bool :=
  (i =? length s) || ((S i =? length s) && match at_ i with Some c => N.eqb c LF | None => false end).

(* the repetition loop: `step` matches one iteration of the body.  An iteration that
   consumes nothing ends the loop (CPython). *)
Fixpoint sloop {A} (step : nat -> caps -> (nat -> caps -> option A) -> option A) (g : bool)
         (k : nat -> caps -> option A) (fuel i : nat) (cp : caps) : option A :=
  match fuel with
  | O => k i cp
  | S f =>
    let iter := step i cp (fun j cp' => if j <=? i then None else sloop step g k f j cp') in
    if g then match iter with Some x => Some x | None => k i cp end
    else match k i cp with Some x => Some x | None => iter end
  end.

Fixpoint m {A} (r : re) (i : nat) (cp : caps) (k : nat -> caps -> option A) {struct r} : option A :=
  match r with
  | Eps => k i cp
  | Chr neg cs => match at_ i with Some c => if in_class ci neg cs c then k (S i) cp else None | None => None end
  | Any => match at_ i with Some c => if N.eqb c LF then None else k (S i) cp | None => None end
  | Cat a b => m a i cp (fun j cp' => m b j cp' k)
  | Alt a b => match m a i cp k with Some x => Some x | None => m b i cp k end
  | Star g r' => sloop (fun i cp k' => m r' i cp k') g k (S (length s - i)) i cp
  | Grp n r' => m r' i cp (fun j cp' => k j ((n, (i, j)) :: cp'))
  | NLook r' => match m r' i cp (fun _ _ => Some tt) with Some _ => None | None => k i cp end
  | Bol => if i =? 0 then k i cp else None
  | Eol => if eol i then k i cp else None
  | Wordb => if wordb i then k i cp else None
  | RUnknown => None
  end.

(* re.match at position i: end of the match and the captures *)
Definition match_at (r : re) (i : nat) : option (nat * caps) := m r i [] (fun j cp => Some (j, cp)).

(* re.search from position i: leftmost *)
Fixpoint search_from (r : re) (fuel i : nat) : option (nat * nat * caps) :=
  match match_at r i with
  | Some (j, cp) => Some (i, j, cp)
  | None => match fuel with O => None | S f => search_from r f (S i) end
  end.
Definition search (r : re) : option (nat * nat * caps) := search_from r (length s) 0.

(* re.finditer for patterns that do not match the empty string (an empty match advances
   by one character, which is CPython's behaviour only up to adjacency rules) *)
Fixpoint finditer_from (r : re) (fuel i : nat) : list (nat * nat * caps) :=
  match fuel with
  | O => []
  | S f =>
    if length s <? i then [] else
    match search_from r (length s - i) i with
    | None => []
    | Some (a, b, cp) => (a, b, cp) :: finditer_from r f (if b <=? a then S a else b)
    end
  end.
Definition finditer (r : re) : list (nat * nat * caps) := finditer_from r (S (length s)) 0.

Definition group (cp : caps) (n : nat) : option (nat * nat) :=
  match find (fun x => fst x =? n) cp with Some x => Some (snd x) | None => None end.
End Matcher.

Fixpoint has_unknown (r : re) : bool :=
  match r with
  | RUnknown => true
  | Cat a b | Alt a b => has_unknown a || has_unknown b
  | Star _ a | Grp _ a | NLook a => has_unknown a
  | _ => false
  end.

(* a compiled pattern: the expression and its I flag *)
Record pat := { p_re : re; p_ci : bool }.
Definition pmatch (p : pat) (s : str) : option (nat * caps) := match_at (p_ci p) s (p_re p) 0.
Definition psearch (p : pat) (s : str) := search (p_ci p) s (p_re p).
Definition pfinditer (p : pat) (s : str) := finditer (p_ci p) s (p_re p).
Definition pmatchb (p : pat) (s : str) : bool := match pmatch p s with Some _ => true | None => false end.
Definition psearchb (p : pat) (s : str) : bool := match psearch p s with Some _ => true | None => false end.

(* convenience constructors used by the translator *)
Definition Lit (c : char) : re := Chr false [CLit c].
Fixpoint Lits (l : str) : re := match l with [] => Eps | [c] => Lit c | c :: r => Cat (Lit c) (Lits r) end.
Definition Opt (g : bool) (r : re) : re := if g then Alt r Eps else Alt Eps r.
Definition Plus (g : bool) (r : re) : re := Cat r (Star g r).
Fixpoint Times (n : nat) (r : re) : re := match n with O => Eps | 1 => r | S k => Cat r (Times k r) end.
(* r{0,n} greedy/lazy *)
Fixpoint UpTo (g : bool) (n : nat) (r : re) : re := match n with O => Eps | S k => Opt g (Cat r (UpTo g k r)) end.
