(* Base/RegexCheck.v -- comparison helpers used by the engine-fidelity run (harness/regexfid.py). *)
From FV Require Import Base.Str Base.Regex.

Definition span_eqb (a b : option (nat * nat)) : bool :=
  match a, b with
  | None, None => true
  | Some (x, y), Some (u, v) => (x =? u) && (y =? v)
  | _, _ => false
  end.

Fixpoint groups_eqb (cp : caps) (k : nat) (gs : list (option (nat * nat))) : bool :=
  match gs with
  | [] => true
  | g :: r => span_eqb (group cp k) g && groups_eqb cp (S k) r
  end.

Definition res := option (nat * nat * list (option (nat * nat))).

Definition chk_match (p : pat) (s : str) (e : res) : bool :=
  match pmatch p s, e with
  | None, None => true
  | Some (j, cp), Some (a, b, gs) => (a =? 0) && (j =? b) && groups_eqb cp 1 gs
  | _, _ => false
  end.

Definition chk_search (p : pat) (s : str) (e : res) : bool :=
  match psearch p s, e with
  | None, None => true
  | Some (i, j, cp), Some (a, b, gs) => (i =? a) && (j =? b) && groups_eqb cp 1 gs
  | _, _ => false
  end.

Fixpoint spans_eqb (a : list (nat * nat * caps)) (b : list (nat * nat)) : bool :=
  match a, b with
  | [], [] => true
  | (i, j, _) :: a', (u, v) :: b' => (i =? u) && (j =? v) && spans_eqb a' b'
  | _, _ => false
  end.

Definition chk_finditer (p : pat) (s : str) (e : list (nat * nat)) : bool := spans_eqb (pfinditer p s) e.
