(* Base/LinesFacts.v -- the glue lemma for splitlines. *)
From FV Require Import Base.Str Base.Lines.

Lemma lrun_app s a b : lrun s (a ++ b) = lrun (lrun s a) b.
Proof. unfold lrun. apply fold_left_app. Qed.

Lemma prepend_first_assoc cur c X :
  prepend_first cur (prepend_first [c] X) = prepend_first (cur ++ [c]) X.
Proof. destruct X as [|x xs]; simpl; [reflexivity|]. now rewrite <- app_assoc. Qed.

Lemma lfinish_lrun_gen b : forall d cur cr,
  lfinish (lrun (LS d cur cr) b) = d ++ prepend_first cur (lfinish (lrun (LS [] [] cr) b)).
Proof.
  induction b as [|c b IH]; intros d cur cr.
  - unfold lfinish; simpl. now rewrite app_nil_r.
  - unfold lrun in *. cbn [fold_left]. unfold lstep at 2 4. cbn [ls_done ls_cur ls_cr].
    destruct (N.eqb c LF) eqn:E1.
    + destruct cr.
      * apply IH.
      * rewrite IH. rewrite (IH ([] ++ [[]])). cbn [app prepend_first].
        rewrite app_nil_r, <- app_assoc. reflexivity.
    + destruct (N.eqb c CR) eqn:E2.
      * rewrite IH. rewrite (IH ([] ++ [[]])). cbn [app prepend_first].
        rewrite app_nil_r, <- app_assoc. reflexivity.
      * rewrite IH. rewrite (IH [] ([] ++ [c])). cbn [app].
        now rewrite prepend_first_assoc.
Qed.

Lemma lrun_cr_irrelevant b d cur :
  starts_lf b = false ->
  lfinish (lrun (LS d cur true) b) = lfinish (lrun (LS d cur false) b).
Proof.
  destruct b as [|c b]; intro H; [reflexivity|]. f_equal.
  unfold lrun; cbn [fold_left]. unfold lstep. cbn [ls_done ls_cur ls_cr].
  simpl in H. now rewrite H.
Qed.

Lemma last_opt_snoc {A} (a : list A) c : last_opt (a ++ [c]) = Some c.
Proof. unfold last_opt. now rewrite rev_app_distr. Qed.

Lemma ends_cr_snoc a c : ends_cr (a ++ [c]) = N.eqb c CR.
Proof. unfold ends_cr. now rewrite last_opt_snoc. Qed.

Lemma ls_cr_lstep s c : ls_cr (lstep s c) = N.eqb c CR.
Proof.
  unfold lstep. destruct (N.eqb c LF) eqn:E1.
  - apply N.eqb_eq in E1; subst. destruct (ls_cr s); reflexivity.
  - destruct (N.eqb c CR); reflexivity.
Qed.

Lemma ls_cr_lrun a : ls_cr (lrun linit a) = ends_cr a.
Proof.
  destruct a as [|c a] using rev_ind; [reflexivity|].
  rewrite lrun_app. unfold lrun at 1; cbn [fold_left].
  now rewrite ls_cr_lstep, ends_cr_snoc.
Qed.

Theorem splitlines_app a b :
  clean a b = true -> splitlines (a ++ b) = glue (splitlines a) (splitlines b).
Proof.
  intro Hc. unfold splitlines. rewrite lrun_app.
  pose proof (ls_cr_lrun a) as Hcr.
  destruct (lrun linit a) as [d cur cr] eqn:Ea. cbn [ls_cr] in Hcr.
  rewrite lfinish_lrun_gen.
  assert (Hb : lfinish (lrun (LS [] [] cr) b) = lfinish (lrun linit b)).
  { destruct cr; [|reflexivity]. apply lrun_cr_irrelevant.
    unfold clean in Hc. rewrite <- Hcr in Hc. simpl in Hc.
    now destruct (starts_lf b). }
  rewrite Hb. unfold glue, lfinish at 2 3. cbn [ls_done ls_cur].
  now rewrite removelast_last, last_last.
Qed.

Lemma splitlines_nonempty t : splitlines t <> [].
Proof. unfold splitlines, lfinish. destruct (ls_done _); discriminate. Qed.

Lemma splitlines_nil : splitlines [] = [[]].
Proof. reflexivity. Qed.

(* a text without line breaks is a single line *)
Definition no_break (t : str) : bool := forallb (fun c => negb (N.eqb c LF || N.eqb c CR)) t.

Lemma lrun_no_break t : forall d cur cr, no_break t = true ->
  lrun (LS d cur cr) t = LS d (cur ++ t) (match t with [] => cr | _ => false end).
Proof.
  induction t as [|c t IH]; intros d cur cr H.
  - simpl. now rewrite app_nil_r.
  - simpl in H. apply andb_true_iff in H as [H1 H2].
    apply negb_true_iff, orb_false_iff in H1 as [E1 E2].
    unfold lrun in *; cbn [fold_left]. unfold lstep at 2. rewrite E1, E2.
    cbn [ls_done ls_cur]. rewrite IH by assumption. rewrite <- app_assoc. simpl.
    now destruct t.
Qed.

Lemma splitlines_no_break t : no_break t = true -> splitlines t = [t].
Proof. intro H. unfold splitlines, linit. now rewrite lrun_no_break. Qed.

(* the number of lines is one more than the number of breaks; in particular a
   single-line result means the text had no break *)
Lemma length_lfinish_lstep s c :
  length (lfinish (lstep s c)) >= length (lfinish s).
Proof.
  unfold lfinish, lstep. destruct (N.eqb c LF); [destruct (ls_cr s)|destruct (N.eqb c CR)];
    cbn [ls_done ls_cur]; rewrite ?app_length; simpl; lia.
Qed.

Lemma length_lfinish_lrun t : forall s, length (lfinish (lrun s t)) >= length (lfinish s).
Proof.
  induction t as [|c t IH]; intro s; [simpl; lia|].
  unfold lrun in *; cbn [fold_left]. specialize (IH (lstep s c)).
  pose proof (length_lfinish_lstep s c). lia.
Qed.
