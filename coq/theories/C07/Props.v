(* C07/Props.v -- property C07, the part carried by theorems: the decision rules behind the diagnostics, for all scopes,
   and the structural classes of the scope machine.  Statements only; proofs in C07/Proofs.v, C04/Proofs.v. *)
From Coq Require Import ZArith String Sorting.Sorted.
From FV Require Import Base.Str Shared.ScopeMachine Shared.Resolve C03.Proofs C04.Model C04.Proofs C07.Model C07.Proofs C07.Tree.

(* silent on valid structure: every well-formed file, any nesting depth, leaves no END error behind *)
Theorem valid_program_no_end_errors : forall l last,
  wfs l = true -> forallb top_ok l = true -> exists s, parse (renders 1 l) last = Ok s /\ errs s = [].
Proof. intros l last H1 H2. destruct (outline_records l last H1 H2) as [s [Hp [_ [He _]]]]. eauto. Qed.
Print Assumptions valid_program_no_end_errors.

(* block construct left open when a bare END is reached: from every reachable state, at any depth, exactly one new
   entry that names the END line and is placed on the construct *)
Theorem open_block_bare_end_reported s n ends c x r :
  Inv s -> cur s = Some c -> nth_error (scopes s) c = Some x -> eregex s = Some r ->
  req_named_end (s_kind x) = true -> is_select (s_kind x) = false -> (forall m, none_s s = Some m -> c <> m) ->
  exists s', step s n (TEnd true ends) = Ok s' /\ errs s' = errs s ++ [(Some n, s_sline x)].
Proof. exact (bare_end_in_block s n ends c x r). Qed.
Print Assumptions open_block_bare_end_reported.

(* name declared twice: reported exactly on a declaration that follows, on a later line, one of the same name *)
Theorem declared_twice_exact cs c : StronglySorted by_line cs -> In c cs -> c_hash c = false -> c_int c = false ->
  Forall (fun c => 1 <= c_sline c) cs ->
  (twice false (fqsn_dict cs []) c = true <->
   exists c0, In c0 cs /\ c_int c0 = false /\ c_fqsn c0 = c_fqsn c /\ c_sline c0 < c_sline c).
Proof. exact (twice_spec cs c). Qed.
Print Assumptions declared_twice_exact.

Theorem distinct_names_silent cs : StronglySorted by_line cs -> Forall (fun c => 1 <= c_sline c) cs ->
  (forall a b, In a cs -> In b cs -> c_int a = false -> c_int b = false -> c_fqsn a = c_fqsn b -> c_sline a = c_sline b) ->
  twice_lines false cs = [].
Proof. exact (distinct_names_no_twice cs). Qed.
Print Assumptions distinct_names_silent.

(* procedure before CONTAINS *)
Theorem procedure_before_contains_exact k cstart eline c : c_hash c = false ->
  (before_contains (contains_line k cstart eline) c = true <->
   c_proc c = true /\ (k = KMod \/ k = KSmod \/ k = KSub \/ k = KFun) /\ c_sline c < match cstart with Some x => x | None => eline end).
Proof. exact (before_contains_spec k cstart eline c). Qed.
Print Assumptions procedure_before_contains_exact.

(* USE after IMPLICIT, IMPORT outside an interface body, unknown module *)
Theorem use_after_implicit_exact pi il us l : 1 <= il ->
  (In (DUseAfterImplicit l) (check_use pi (Some il) us) <-> l = il - 1 /\ exists u, In u us /\ il < u_line u).
Proof. exact (use_after_implicit_spec pi il us l). Qed.
Print Assumptions use_after_implicit_exact.

Theorem import_outside_interface_exact pi il us l :
  In (DImport l) (check_use pi il us) <-> pi = false /\ exists u, In u us /\ u_import u = true /\ l = u_line u - 1.
Proof. exact (import_spec pi il us l). Qed.
Print Assumptions import_outside_interface_exact.

Theorem unknown_module_exact pi il us l :
  In (DNotFound l) (check_use pi il us) <-> exists u, In u us /\ u_import u = false /\ u_known u = false /\ l = u_line u - 1.
Proof. exact (module_not_found_spec pi il us l). Qed.
Print Assumptions unknown_module_exact.

(* procedure nested in a type or block construct, and the other invalid parents: the complete table *)
Theorem invalid_parent_exact k pk : valid_parent k pk = negb (invalid_table k pk).
Proof. exact (valid_parent_table k pk). Qed.
Print Assumptions invalid_parent_exact.

(* whole programs: a file that is well formed and respects the nesting rules (units at top level, procedures not inside types or
   block constructs, types inside units/procedures/BLOCK) has neither END errors nor invalid parents, whatever its depth *)
Theorem valid_structure_publishes_no_structural_error l last :
  wfs l = true -> forallb top_ok l = true -> nests_ok None l = true ->
  exists s, parse (renders 1 l) last = Ok s /\ errs s = [] /\ invalid_parent_lines (scopes s) = [].
Proof. exact (valid_structure_silent l last). Qed.
Print Assumptions valid_structure_publishes_no_structural_error.

(* and a procedure nested in a type or block construct (any construct with a parent it may not have) is reported on its
   opening line, wherever in whichever program it stands *)
Theorem misplaced_construct_is_reported pre post b par n k name bare ends body p x :
  length pre = b -> par = Some p -> nth_error pre p = Some x -> valid_parent k (Some (s_kind x)) = false ->
  In (n - 1) (invalid_parent_lines (pre ++ recs b par n (Node k name bare ends body) ++ post)).
Proof. exact (misplaced_construct_reported pre post b par n k name bare ends body p x). Qed.
Print Assumptions misplaced_construct_is_reported.

(* what the pinned tree did: a derived type inside a BLOCK construct, which is standard Fortran, was an invalid parent *)
Definition valid_parent_pinned (k : kind) (pk : option kind) : bool :=
  match k, pk with KType, Some p => negb (Nat.eqb (type_id p) 4) && (type_id p <? 9) | _, _ => valid_parent k pk end.
Theorem C07_refuted_type_in_block : valid_parent_pinned KType (Some KBlock) = false /\ valid_parent KType (Some KBlock) = true.
Proof. split; reflexivity. Qed.
Print Assumptions C07_refuted_type_in_block.

Example C07_nonvacuous :
  let cs := [CH (s2l "m::a") 3 false false false; CH (s2l "m::b") 4 false false false; CH (s2l "m::a") 6 false false false;
             CH (s2l "m::s") 8 false false true] in
  twice_lines false cs = [5] /\
  filter (before_contains (contains_line KMod (Some 9) 20)) cs = [CH (s2l "m::s") 8 false false true] /\
  filter (before_contains (contains_line KMod (Some 7) 20)) cs = [] /\
  check_use false (Some 3) [UST 2 false true; UST 4 false false; UST 5 true true] = [DNotFound 3; DImport 4; DUseAfterImplicit 2] /\
  invalid_parent_lines [SC KMod (s2l "m") 1 9 None; SC KType (s2l "t") 2 5 (Some 0); SC KSub (s2l "s") 3 4 (Some 1)] = [2].
Proof. vm_compute. repeat split. Qed.
Print Assumptions C07_nonvacuous.
