(* C07/Tree.v -- 'Invalid parent' over whole program trees: a tree that respects the nesting rules has no invalid parent
   among its scope objects; a misplaced construct is reported on its opening line.  Uses the program trees of C04. *)
From Coq Require Import ZArith Lia.
From FV Require Import Base.Str Shared.ScopeMachine C03.Proofs C04.Model C04.Proofs C07.Model.

(* the nesting rules of the language, as far as check_valid_parent knows them *)
Fixpoint nest_ok (pk : option kind) (t : tree) : bool :=
  match t with
  | Leaf _ => true
  | Node k _ _ _ body => valid_parent k pk && (fix go (l : list tree) := match l with [] => true | x :: r => nest_ok (Some k) x && go r end) body
  end.
Definition nests_ok (pk : option kind) (l : list tree) : bool :=
  (fix go (l : list tree) := match l with [] => true | x :: r => nest_ok pk x && go r end) l.

Definition par_ok (pre : list scope) (par : option nat) (pk : option kind) : Prop :=
  match par with
  | Some p => p < length pre /\ option_map s_kind (nth_error pre p) = pk
  | None => pk = None
  end.

Definition valid_in (whole : list scope) (x : scope) : Prop := valid_parent (s_kind x) (parent_kind whole x) = true.

Definition Q_tree (t : tree) : Prop :=
  forall b par n pre post pk, length pre = b -> nest_ok pk t = true -> par_ok pre par pk ->
  Forall (valid_in (pre ++ recs b par n t ++ post)) (recs b par n t).
Definition Q_list (l : list tree) : Prop :=
  forall b par n pre post pk, length pre = b -> nests_ok pk l = true -> par_ok pre par pk ->
  Forall (valid_in (pre ++ recss b par n l ++ post)) (recss b par n l).

Lemma par_lookup pre rest par pk : par_ok pre par pk ->
  match par with Some p => option_map s_kind (nth_error (pre ++ rest) p) | None => None end = pk.
Proof.
  destruct par as [p|]; cbn; [|intro H; now symmetry]. intros [Hlt He]. rewrite nth_error_app1 by exact Hlt. exact He.
Qed.

Lemma par_ok_extend pre more par pk : par_ok pre par pk -> par_ok (pre ++ more) par pk.
Proof.
  destruct par as [p|]; cbn; [|auto]. intros [Hlt He]. split; [rewrite app_length; lia|]. rewrite nth_error_app1 by exact Hlt. exact He.
Qed.

Lemma q_list_of_forall l : Forall Q_tree l -> Q_list l.
Proof.
  induction 1 as [|x r Hx Hr IH]; intros b par n pre post pk Hb Hn Hp; [constructor|].
  cbn [nests_ok] in Hn. apply andb_true_iff in Hn as [Hn1 Hn2].
  rewrite recss_cons. apply Forall_app. split.
  - specialize (Hx b par n pre (recss (b + count x) par (n + size x) r ++ post) pk Hb Hn1 Hp).
    rewrite <- app_assoc. exact Hx.
  - specialize (IH (b + count x) par (n + size x) (pre ++ recs b par n x) post pk).
    rewrite <- !app_assoc in IH. rewrite <- app_assoc. apply IH.
    + rewrite app_length, length_recs. lia.
    + exact Hn2.
    + now apply par_ok_extend.
Qed.

Lemma q_tree : forall t, Q_tree t.
Proof.
  apply tree_ind'.
  - intros l b par n pre post pk _ _ _. constructor.
  - intros k name bare ends body IH b par n pre post pk Hb Hn Hp.
    cbn [nest_ok] in Hn. apply andb_true_iff in Hn as [Hv Hbody].
    rewrite recs_node. constructor.
    + unfold valid_in, parent_kind. cbn [s_kind s_parent]. rewrite (par_lookup pre _ par pk Hp). exact Hv.
    + pose proof (q_list_of_forall body IH) as HL.
      specialize (HL (S b) (Some b) (S n) (pre ++ [SC k name n (S n + sizes body) par]) post (Some k)).
      rewrite <- !app_assoc in HL. cbn [app] in HL. apply HL.
      * rewrite app_length. cbn. lia.
      * exact Hbody.
      * cbn. split; [rewrite app_length; cbn; lia|]. rewrite nth_error_app2 by lia. rewrite Hb, Nat.sub_diag. reflexivity.
Qed.

Theorem nesting_respected_no_invalid_parent l : nests_ok None l = true -> invalid_parent_lines (recss 0 None 1 l) = [].
Proof.
  intro H. pose proof (q_list_of_forall l ltac:(apply Forall_forall; intros; apply q_tree) 0 None 1 [] [] None eq_refl H eq_refl) as HF.
  cbn [app] in HF. rewrite app_nil_r in HF. unfold invalid_parent_lines.
  assert (Hf : filter (fun x => negb (valid_parent (s_kind x) (parent_kind (recss 0 None 1 l) x))) (recss 0 None 1 l) = []).
  { rewrite Forall_forall in HF. destruct (filter _ _) as [|x r] eqn:E; [reflexivity|exfalso].
    assert (Hx : In x (filter (fun x => negb (valid_parent (s_kind x) (parent_kind (recss 0 None 1 l) x))) (recss 0 None 1 l))) by (rewrite E; now left).
    apply filter_In in Hx as [Hin Hneg]. specialize (HF x Hin). unfold valid_in in HF. rewrite HF in Hneg. discriminate. }
  rewrite Hf. reflexivity.
Qed.

(* a valid file: well formed, units at top level, nesting respected -- neither END errors nor invalid parents *)
Theorem valid_structure_silent l last : wfs l = true -> forallb top_ok l = true -> nests_ok None l = true ->
  exists s, parse (renders 1 l) last = Ok s /\ errs s = [] /\ invalid_parent_lines (scopes s) = [].
Proof.
  intros H1 H2 H3. destruct (outline_records l last H1 H2) as [s [Hp [Hs [He _]]]].
  exists s. split; [exact Hp|]. split; [exact He|]. rewrite Hs. now apply nesting_respected_no_invalid_parent.
Qed.

(* a construct whose parent is not allowed is reported on its opening line, wherever it stands *)
Theorem misplaced_construct_reported pre post b par n k name bare ends body p x :
  length pre = b -> par = Some p -> nth_error pre p = Some x -> valid_parent k (Some (s_kind x)) = false ->
  In (n - 1) (invalid_parent_lines (pre ++ recs b par n (Node k name bare ends body) ++ post)).
Proof.
  intros Hb Hpar Hx Hv. unfold invalid_parent_lines. rewrite recs_node.
  apply in_map_iff. exists (SC k name n (S n + sizes body) par). split; [reflexivity|].
  apply filter_In. split; [apply in_or_app; right; now left|].
  unfold parent_kind. cbn [s_kind s_parent]. subst par.
  rewrite nth_error_app1 by (apply nth_error_Some; congruence). rewrite Hx. cbn. now rewrite Hv.
Qed.
