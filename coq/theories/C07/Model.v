(* C07/Model.v -- the decision rules behind the diagnostics (fortls/parsers/internal/scope.py check_definitions and
   check_use, check_valid_parent of Module/Subroutine/Type), transcribed over abstract children.  Definitions only. *)
From Coq Require Import ZArith.
From FV Require Import Base.Str Shared.ScopeMachine Shared.Resolve.

(* what check_definitions reads of a child *)
Record child := CH {
  c_fqsn : str;
  c_sline : nat;          (* 1-based *)
  c_int : bool;           (* get_type() == INTERFACE_TYPE_ID *)
  c_hash : bool;          (* name starts with # *)
  c_proc : bool           (* get_type(no_link=True) is SUBROUTINE or FUNCTION *)
}.

(* first loop: fqsn_dict.  Note the comparison of a 1-based line with the stored 0-based one. *)
Fixpoint fqsn_dict (cs : list child) (d : list (str * nat)) : list (str * nat) :=
  match cs with
  | [] => d
  | c :: r =>
    if c_int c then fqsn_dict r d
    else match sassoc (c_fqsn c) d with
         | Some v => fqsn_dict r (if c_sline c <? v then sset (c_fqsn c) (c_sline c - 1) d else d)
         | None => fqsn_dict r (d ++ [(c_fqsn c, c_sline c - 1)])
         end
  end.

(* 'Variable ... declared twice in scope' for child c *)
Definition twice (self_int : bool) (d : list (str * nat)) (c : child) : bool :=
  negb (c_hash c) && negb self_int && negb (c_int c) &&
  match sassoc (c_fqsn c) d with Some v => v <? c_sline c - 1 | None => false end.

Definition twice_lines (self_int : bool) (cs : list child) : list nat :=
  map (fun c => c_sline c - 1) (filter (twice self_int (fqsn_dict cs [])) cs).

(* 'Subroutine/Function definition before CONTAINS statement' *)
Definition contains_line (k : kind) (contains_start : option nat) (eline : nat) : Z :=
  match k with
  | KMod | KSmod | KSub | KFun => Z.of_nat (match contains_start with Some c => c | None => eline end)
  | _ => (-1)%Z
  end.
Definition before_contains (cl : Z) (c : child) : bool :=
  negb (c_hash c) && (Z.of_nat (c_sline c) <? cl)%Z && c_proc c.      (* `contains_line > child.sline` *)

Definition before_contains_lines (cl : Z) (cs : list child) : list nat := map (fun c => c_sline c - 1) (filter (before_contains cl) cs).

(* check_use *)
Record usest := UST { u_line : nat; u_import : bool; u_known : bool (* mod_name in obj_tree *) }.
Inductive udiag := DImport (line : nat) | DNotFound (line : nat) | DUseAfterImplicit (line : nat).
Definition check_use (parent_is_interface : bool) (implicit_line : option nat) (us : list usest) : list udiag :=
  flat_map (fun u => if u_import u then (if parent_is_interface then [] else [DImport (u_line u - 1)])
                     else if u_known u then [] else [DNotFound (u_line u - 1)]) us
  ++ match implicit_line with
     | Some il => if (il <? fold_left (fun m u => Nat.max m (u_line u)) us 0) && negb (match us with [] => true | _ => false end)
                  then [DUseAfterImplicit (il - 1)] else []
     | None => []
     end.

(* check_valid_parent: Module (also Program, Submodule), Subroutine (also Function), Type *)
Definition valid_parent (k : kind) (pk : option kind) : bool :=
  match k with
  | KMod | KSmod | KProg => match pk with None => true | Some _ => false end
  | KSub | KFun => match pk with None => true | Some p => negb (Nat.eqb (type_id p) 4) && (type_id p <? 9) end
  | KType => match pk with None => false | Some p => negb (Nat.eqb (type_id p) 4) && (type_id p <=? 9) end
  | _ => true
  end.

Definition parent_kind (sc : list scope) (x : scope) : option kind :=
  match s_parent x with Some p => option_map s_kind (nth_error sc p) | None => None end.
Definition invalid_parent_lines (sc : list scope) : list nat :=
  map (fun x => s_sline x - 1) (filter (fun x => negb (valid_parent (s_kind x) (parent_kind sc x))) sc).

Definition nats_eqb (a b : list nat) : bool := list_eqb Nat.eqb a b.
Definition udiag_eqb (a b : udiag) : bool :=
  match a, b with DImport x, DImport y | DNotFound x, DNotFound y | DUseAfterImplicit x, DUseAfterImplicit y => x =? y | _, _ => false end.
