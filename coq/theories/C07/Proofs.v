(* C07/Proofs.v *)
From Coq Require Import ZArith ZifyBool Lia Sorting.Sorted.
From FV Require Import Base.Str Shared.ScopeMachine Shared.Resolve C03.Proofs C07.Model.

Lemma str_eqb_refl s : str_eqb s s = true.
Proof. now apply str_eqb_eq. Qed.
Lemma str_eqb_sym a b : str_eqb a b = str_eqb b a.
Proof.
  destruct (str_eqb a b) eqn:E; symmetry.
  - apply str_eqb_eq in E. subst. apply str_eqb_refl.
  - destruct (str_eqb b a) eqn:E2; [|reflexivity]. apply str_eqb_eq in E2. subst. rewrite str_eqb_refl in E. discriminate.
Qed.

Lemma sassoc_app_new {A} f' f (v : A) d :
  sassoc f' (d ++ [(f, v)]) = match sassoc f' d with Some x => Some x | None => if str_eqb f f' then Some v else None end.
Proof.
  induction d as [|[k w] d IH]; cbn; [reflexivity|]. destruct (str_eqb k f'); [reflexivity|exact IH].
Qed.

(* the sline of the first non-interface child with the given FQSN *)
Fixpoint first_line (f : str) (cs : list child) : option nat :=
  match cs with
  | [] => None
  | c :: r => if negb (c_int c) && str_eqb (c_fqsn c) f then Some (c_sline c) else first_line f r
  end.

Definition by_line (a b : child) : Prop := c_sline a <= c_sline b.

(* on children in source order the "update" branch never fires: the dictionary keeps the first line *)
Lemma fqsn_dict_sorted : forall cs d f,
  StronglySorted by_line cs ->
  (forall g v, sassoc g d = Some v -> forall c, In c cs -> v <= c_sline c) ->
  sassoc f (fqsn_dict cs d) = match sassoc f d with Some v => Some v | None => option_map pred (first_line f cs) end.
Proof.
  induction cs as [|c r IH]; intros d f Hs Hd; cbn [fqsn_dict first_line].
  - destruct (sassoc f d); reflexivity.
  - apply StronglySorted_inv in Hs as [Hs Hall]. rewrite Forall_forall in Hall.
    destruct (c_int c) eqn:Ei; cbn [negb andb].
    + apply IH; [exact Hs|]. intros g v Hg c' Hc'. apply (Hd g v Hg). now right.
    + destruct (sassoc (c_fqsn c) d) as [v|] eqn:Ea.
      * assert (Hv : v <= c_sline c) by (apply (Hd _ _ Ea); now left).
        destruct (c_sline c <? v) eqn:El; [lia|].
        rewrite IH; [|exact Hs|intros g w Hg c' Hc'; apply (Hd g w Hg); now right].
        destruct (sassoc f d) as [w|] eqn:Ef; [reflexivity|].
        destruct (str_eqb (c_fqsn c) f) eqn:E; [|reflexivity]. apply str_eqb_eq in E. subst f. congruence.
      * rewrite IH; [|exact Hs|].
        -- rewrite sassoc_app_new. destruct (sassoc f d) as [w|]; [reflexivity|].
           destruct (str_eqb (c_fqsn c) f); cbn; [f_equal; lia|reflexivity].
        -- intros g w Hg c' Hc'. rewrite sassoc_app_new in Hg. destruct (sassoc g d) as [x|] eqn:Eg.
           ++ inversion Hg; subst. apply (Hd g w Eg). now right.
           ++ destruct (str_eqb (c_fqsn c) g); [|discriminate]. inversion Hg; subst. specialize (Hall c' Hc'). unfold by_line in Hall. lia.
Qed.

Lemma first_line_some f cs l : first_line f cs = Some l ->
  exists c0, In c0 cs /\ c_int c0 = false /\ c_fqsn c0 = f /\ c_sline c0 = l.
Proof.
  induction cs as [|c r IH]; cbn; [discriminate|]. destruct (negb (c_int c) && str_eqb (c_fqsn c) f) eqn:E.
  - intro H. inversion H; subst. apply andb_true_iff in E as [E1 E2]. apply negb_true_iff in E1. apply str_eqb_eq in E2. exists c. auto.
  - intro H. destruct (IH H) as [c0 [Hin Hr]]. exists c0. split; [now right|exact Hr].
Qed.

Lemma first_line_le f cs : StronglySorted by_line cs -> forall c l, In c cs -> c_int c = false -> c_fqsn c = f ->
  first_line f cs = Some l -> l <= c_sline c.
Proof.
  induction cs as [|x r IH]; intros Hs c l Hin Hi Hf Hl; [contradiction|].
  apply StronglySorted_inv in Hs as [Hs Hall]. rewrite Forall_forall in Hall. cbn in Hl.
  destruct (negb (c_int x) && str_eqb (c_fqsn x) f) eqn:E.
  - inversion Hl; subst l. destruct Hin as [->|Hin]; [lia|]. specialize (Hall c Hin). exact Hall.
  - destruct Hin as [->|Hin].
    + rewrite Hi, <- Hf, str_eqb_refl in E. discriminate.
    + eapply IH; eauto.
Qed.

Lemma first_line_none f cs c : first_line f cs = None -> In c cs -> c_int c = false -> c_fqsn c = f -> False.
Proof.
  induction cs as [|x r IH]; intros H Hin Hi Hf; [contradiction|]. cbn in H.
  destruct (negb (c_int x) && str_eqb (c_fqsn x) f) eqn:E; [discriminate|].
  destruct Hin as [->|Hin]; [rewrite Hi, <- Hf, str_eqb_refl in E; discriminate|eauto].
Qed.

(* 'declared twice' is reported exactly for a declaration that follows, on a later line, another one of the same name *)
Theorem twice_spec cs c : StronglySorted by_line cs -> In c cs -> c_hash c = false -> c_int c = false -> Forall (fun c => 1 <= c_sline c) cs ->
  (twice false (fqsn_dict cs []) c = true <->
   exists c0, In c0 cs /\ c_int c0 = false /\ c_fqsn c0 = c_fqsn c /\ c_sline c0 < c_sline c).
Proof.
  intros Hs Hin Hh Hi Hall1. rewrite Forall_forall in Hall1. pose proof (Hall1 c Hin) as H1. unfold twice. rewrite Hh, Hi. cbn [negb andb].
  rewrite (fqsn_dict_sorted cs [] (c_fqsn c) Hs) by (intros g v Hg; discriminate). cbn [sassoc].
  destruct (first_line (c_fqsn c) cs) as [l|] eqn:Ef; cbn [option_map].
  - pose proof (first_line_le _ _ Hs c l Hin Hi eq_refl Ef) as Hle.
    destruct (first_line_some _ _ _ Ef) as [c0 [Hin0 [Hi0 [Hf0 Hl0]]]]. pose proof (Hall1 c0 Hin0) as Hc01.
    split.
    + intro H. apply Nat.ltb_lt in H. exists c0. repeat split; auto. destruct l; cbn [Init.Nat.pred] in H; lia.
    + intros [c1 [Hin1 [Hi1 [Hf1 Hlt]]]]. pose proof (first_line_le _ _ Hs c1 l Hin1 Hi1 Hf1 Ef). apply Nat.ltb_lt. destruct l; cbn [Init.Nat.pred]; lia.
  - exfalso. eapply first_line_none; eauto.
Qed.

(* so a scope whose non-interface children carry pairwise different names reports nothing *)
Theorem distinct_names_no_twice cs : StronglySorted by_line cs -> Forall (fun c => 1 <= c_sline c) cs ->
  (forall a b, In a cs -> In b cs -> c_int a = false -> c_int b = false -> c_fqsn a = c_fqsn b -> c_sline a = c_sline b) ->
  twice_lines false cs = [].
Proof.
  intros Hs H1 Hd. unfold twice_lines.
  assert (Hf : filter (twice false (fqsn_dict cs [])) cs = []).
  {
    destruct (filter (twice false (fqsn_dict cs [])) cs) as [|c r] eqn:E; [reflexivity|exfalso].
    assert (Hc : In c (filter (twice false (fqsn_dict cs [])) cs)) by (rewrite E; now left).
    apply filter_In in Hc as [Hin Ht].
    assert (Hh : c_hash c = false) by (unfold twice in Ht; destruct (c_hash c); [discriminate|reflexivity]).
    assert (Hi : c_int c = false) by (unfold twice in Ht; rewrite Hh in Ht; cbn in Ht; destruct (c_int c); [discriminate|reflexivity]).
    apply (twice_spec cs c Hs Hin Hh Hi H1) in Ht as [c0 [Hin0 [Hi0 [Hf0 Hlt]]]].
    specialize (Hd c0 c Hin0 Hin Hi0 Hi Hf0). lia. }
  rewrite Hf. reflexivity.
Qed.

(* without a CONTAINS statement every procedure child of a module or procedure is reported; with one, exactly those at or above it *)
Theorem before_contains_spec k cstart eline c : c_hash c = false ->
  (before_contains (contains_line k cstart eline) c = true <->
   c_proc c = true /\ (k = KMod \/ k = KSmod \/ k = KSub \/ k = KFun) /\ c_sline c < match cstart with Some x => x | None => eline end).
Proof.
  intro Hh. unfold before_contains, contains_line. rewrite Hh. cbn [negb andb].
  split.
  - intro H. apply andb_true_iff in H as [Ha Hp]. split; [exact Hp|].
    destruct k; try (exfalso; lia); (split; [auto 6|lia]).
  - intros [Hp [Hk Hle]]. rewrite Hp, andb_true_r. destruct Hk as [->|[->|[->| ->]]]; lia.
Qed.

(* check_use *)
Lemma max_line_mono us : forall m, m <= fold_left (fun m u => Nat.max m (u_line u)) us m.
Proof. induction us as [|x r IH]; intro m; cbn; [lia|]. etransitivity; [|apply IH]. lia. Qed.
Lemma max_line_ge us : forall m u, In u us -> u_line u <= fold_left (fun m u => Nat.max m (u_line u)) us m.
Proof.
  induction us as [|x r IH]; intros m u Hin; [contradiction|]. cbn. destruct Hin as [->|Hin].
  - etransitivity; [|apply max_line_mono]. lia.
  - now apply IH.
Qed.
Lemma max_line_le us : forall m b, m <= b -> (forall u, In u us -> u_line u <= b) -> fold_left (fun m u => Nat.max m (u_line u)) us m <= b.
Proof.
  induction us as [|x r IH]; intros m b Hm Hb; cbn; [exact Hm|]. apply IH; [|intros u Hu; apply Hb; now right].
  specialize (Hb x (or_introl eq_refl)). lia.
Qed.

Theorem use_after_implicit_spec pi il us l : 1 <= il ->
  (In (DUseAfterImplicit l) (check_use pi (Some il) us) <-> l = il - 1 /\ exists u, In u us /\ il < u_line u).
Proof.
  intro H1. unfold check_use. rewrite in_app_iff. split.
  - intros [H|H].
    + apply in_flat_map in H as [u [_ Hu]]. destruct (u_import u); [destruct pi; [contradiction|destruct Hu as [Hu|[]]; discriminate]|].
      destruct (u_known u); [contradiction|destruct Hu as [Hu|[]]; discriminate].
    + destruct ((il <? _) && _) eqn:E; [|contradiction]. destruct H as [H|[]]. inversion H; subst. split; [reflexivity|].
      apply andb_true_iff in E as [E _]. apply Nat.ltb_lt in E.
      destruct (Exists_dec (fun u => il < u_line u) us (fun u => lt_dec il (u_line u))) as [Hex|Hno].
      * apply Exists_exists in Hex. exact Hex.
      * exfalso. assert (fold_left (fun m u => Nat.max m (u_line u)) us 0 <= il).
        { apply max_line_le; [lia|]. intros u Hu. destruct (lt_dec il (u_line u)); [|lia]. exfalso. apply Hno. apply Exists_exists. eauto. }
        lia.
  - intros [-> [u [Hu Hle]]]. right.
    assert (E : (il <? fold_left (fun m u => Nat.max m (u_line u)) us 0) = true) by (apply Nat.ltb_lt; eapply Nat.lt_le_trans; [exact Hle|apply max_line_ge; exact Hu]).
    rewrite E. destruct us; [contradiction|]. cbn. now left.
Qed.

Theorem import_spec pi il us l :
  In (DImport l) (check_use pi il us) <-> pi = false /\ exists u, In u us /\ u_import u = true /\ l = u_line u - 1.
Proof.
  unfold check_use. rewrite in_app_iff. split.
  - intros [H|H].
    + apply in_flat_map in H as [u [Hin Hu]]. destruct (u_import u) eqn:Ei.
      * destruct pi; [contradiction|]. destruct Hu as [Hu|[]]. inversion Hu; subst. split; [reflexivity|]. eauto.
      * destruct (u_known u); [contradiction|destruct Hu as [Hu|[]]; discriminate].
    + destruct il as [il|]; [|contradiction]. destruct (_ && _); [destruct H as [H|[]]; discriminate|contradiction].
  - intros [-> [u [Hin [Hi ->]]]]. left. apply in_flat_map. exists u. split; [exact Hin|]. rewrite Hi. now left.
Qed.

Theorem module_not_found_spec pi il us l :
  In (DNotFound l) (check_use pi il us) <-> exists u, In u us /\ u_import u = false /\ u_known u = false /\ l = u_line u - 1.
Proof.
  unfold check_use. rewrite in_app_iff. split.
  - intros [H|H].
    + apply in_flat_map in H as [u [Hin Hu]]. destruct (u_import u) eqn:Ei.
      * destruct pi; [contradiction|destruct Hu as [Hu|[]]; discriminate].
      * destruct (u_known u) eqn:Ek; [contradiction|]. destruct Hu as [Hu|[]]. inversion Hu; subst. eauto 6.
    + destruct il as [il|]; [|contradiction]. destruct (_ && _); [destruct H as [H|[]]; discriminate|contradiction].
  - intros [u [Hin [Hi [Hk ->]]]]. left. apply in_flat_map. exists u. split; [exact Hin|]. rewrite Hi, Hk. now left.
Qed.

(* check_valid_parent as a table *)
Definition unit_kind (k : kind) : bool := match k with KMod | KSmod | KProg => true | _ => false end.
Definition proc_kind (k : kind) : bool := match k with KSub | KFun => true | _ => false end.
Definition construct_kind (k : kind) : bool := 9 <=? type_id k.   (* BLOCK and everything derived from it *)

Definition is_type (k : kind) : bool := match k with KType => true | _ => false end.
Definition invalid_table (k : kind) (pk : option kind) : bool :=
  (unit_kind k && match pk with Some _ => true | None => false end)
  || (proc_kind k && match pk with Some p => is_type p || construct_kind p | None => false end)
  || (is_type k && match pk with Some p => is_type p || (10 <=? type_id p) | None => true end).

Theorem valid_parent_table k pk : valid_parent k pk = negb (invalid_table k pk).
Proof. destruct k; destruct pk as [p|]; try reflexivity; destruct p; reflexivity. Qed.

(* a bare END reached while a block construct is open: exactly one new entry, naming the END line, placed on the construct *)
Theorem bare_end_in_block s n ends c x r :
  Inv s -> cur s = Some c -> nth_error (scopes s) c = Some x -> eregex s = Some r ->
  req_named_end (s_kind x) = true -> is_select (s_kind x) = false ->
  (forall m, none_s s = Some m -> c <> m) ->
  exists s', step s n (TEnd true ends) = Ok s' /\ errs s' = errs s ++ [(Some n, s_sline x)].
Proof.
  intros HI Hc Hx Hr Hreq Hsel Hnone.
  unfold step, step_end. rewrite Hr. unfold cur_kind, kind_at. rewrite Hc, Hx. cbn [option_map].
  rewrite Hreq, Hsel. cbn [andb orb].
  assert (Hn : (match none_s s with Some m => c =? m | None => false end) = false).
  { destruct (none_s s) as [m|] eqn:E; [|reflexivity]. apply Nat.eqb_neq. apply Hnone. reflexivity. }
  rewrite Hn. cbn [negb andb].
  unfold end_scope. cbn [cur none_s sstack estack scopes errs labels globals eregex].
  rewrite Hn. cbn [andb].
  destruct (sstack s) as [|a ss]; destruct (estack s) as [|b es]; cbn; eexists; split; reflexivity.
Qed.
