(* C20/Forest.v -- INCLUDE resolution keeps the scope graph free of cycles, in both link
   directions, for every sequence of attach / detach operations; hence the unguarded walks
   over it (host association through parent links, update_fqsn through children) terminate. *)
From FV Require Import Base.Str Shared.Walks C20.Proofs.

(* ------------------------------------------------------------------ reachability *)
Section Reach.
Variable E : nat -> nat -> Prop.

Inductive reach : nat -> nat -> Prop :=
| reach_refl x : reach x x
| reach_step x y z : E x y -> reach y z -> reach x z.

Lemma reach_trans a b c : reach a b -> reach b c -> reach a c.
Proof. induction 1 as [|x y z Hxy _ IH]; [auto|]. intro H. eapply reach_step; [exact Hxy|auto]. Qed.

Lemma reach_snoc a b c : reach a b -> E b c -> reach a c.
Proof. intros H1 H2. eapply reach_trans; [exact H1|]. eapply reach_step; [exact H2|constructor]. Qed.

Definition Acyclic : Prop := forall x y, E x y -> ~ reach y x.
End Reach.

Lemma reach_sub (E E' : nat -> nat -> Prop) : (forall a b, E' a b -> E a b) -> forall a b, reach E' a b -> reach E a b.
Proof. intros H a b. induction 1 as [|x y z Hxy _ IH]; [constructor|]. eapply reach_step; eauto. Qed.

Lemma acyclic_sub (E E' : nat -> nat -> Prop) : (forall a b, E' a b -> E a b) -> Acyclic E -> Acyclic E'.
Proof. intros H HA x y Hxy Hr. apply (HA x y); [auto|]. eapply reach_sub; eauto. Qed.

(* adding one edge u -> v to an acyclic graph in which u is not reachable from v *)
Section AddEdge.
Variables (E E' : nat -> nat -> Prop) (u v : nat).
Hypothesis sub : forall a b, E' a b -> E a b \/ (a = u /\ b = v).
Hypothesis acyc : Acyclic E.
Hypothesis no_back : ~ reach E v u.

Lemma reach_split a b : reach E' a b -> reach E a b \/ (reach E a u /\ reach E' v b).
Proof.
  induction 1 as [x|x y z Hxy Hyz IH]; [left; constructor|].
  destruct (sub _ _ Hxy) as [He|[-> ->]].
  - destruct IH as [IH|[IH1 IH2]]; [left|right; split; [|exact IH2]]; eapply reach_step; eauto.
  - right. split; [constructor|exact Hyz].
Qed.

Lemma reach_from_v b : reach E' v b -> reach E v b.
Proof. intro H. destruct (reach_split _ _ H) as [H1|[H1 _]]; [exact H1|contradiction]. Qed.

Lemma add_edge_acyclic : Acyclic E'.
Proof.
  intros x y Hxy Hr. destruct (sub _ _ Hxy) as [He|[-> ->]].
  - destruct (reach_split _ _ Hr) as [H1|[H1 H2]]; [exact (acyc _ _ He H1)|].
    apply no_back. apply reach_from_v in H2.
    eapply reach_trans; [exact H2|]. eapply reach_step; [exact He|exact H1].
  - apply no_back. now apply reach_from_v.
Qed.
End AddEdge.

(* ------------------------------------------------------------------ the two link relations *)
Definition EP (fo : forest) (x y : nat) : Prop := f_parent fo x = Some y.
Definition EC (fo : forest) (x y : nat) : Prop := In y (f_children fo x).
Definition Forest_ok (fo : forest) : Prop := Acyclic (EP fo) /\ Acyclic (EC fo).

(* ------------------------------------------------------------------ climb: sound on acyclic parent links, total *)
Lemma climb_false_sound par obj : Acyclic (fun x y => par x = Some y) ->
  forall fuel seen s, climb par fuel seen obj s = Some false ->
  (forall z, In z seen -> exists y, par z = Some y /\ forall x, s = Some x -> reach (fun a b => par a = Some b) y x) ->
  forall x, s = Some x -> ~ reach (fun a b => par a = Some b) x obj.
Proof.
  intros HA. induction fuel as [|f IH]; intros seen s H Hinv x ->; [discriminate|]. cbn [climb] in H.
  destruct (nmem x seen) eqn:Es.
  - exfalso. apply nmem_In in Es. destruct (Hinv x Es) as (y & Hy & Hr). exact (HA x y Hy (Hr x eq_refl)).
  - destruct (x =? obj) eqn:Eo; [discriminate|]. apply Nat.eqb_neq in Eo.
    intro Hr. inversion Hr as [|? y ? Hxy Hyo]; subst; [congruence|].
    cbn in Hxy. eapply (IH (x :: seen) (par x) H); [|exact Hxy|exact Hyo].
    intros z [<-|Hz].
    + exists y. split; [exact Hxy|]. intros x' Hx'. rewrite Hxy in Hx'. inversion Hx'; subst. constructor.
    + destruct (Hinv z Hz) as (y' & Hy' & Hr'). exists y'. split; [exact Hy'|].
      intros x' Hx'. eapply reach_snoc; [apply Hr'; reflexivity|]. cbn. congruence.
Qed.

Lemma climb_total N par obj : (forall x y, par x = Some y -> y < N) ->
  forall fuel seen s, NoDup seen -> (forall v, In v seen -> v < N) -> (forall x, s = Some x -> x < N) ->
  N + 1 <= length seen + fuel -> climb par fuel seen obj s <> None.
Proof.
  intros Hb. induction fuel as [|f IH]; intros seen s Hn Hs Hx Hf.
  - pose proof (nodup_bound seen N Hn Hs). lia.
  - cbn [climb]. destruct s as [x|]; [|discriminate].
    destruct (nmem x seen) eqn:Es; [discriminate|]. destruct (x =? obj); [discriminate|].
    assert (~ In x seen) by (intro Hi; apply nmem_In in Hi; congruence).
    apply IH.
    + now constructor.
    + intros v [<-|Hv]; [now apply Hx|now apply Hs].
    + intros y Hy. eapply Hb; eauto.
    + cbn. lia.
Qed.

(* ------------------------------------------------------------------ descend: sound on every graph, total *)
Lemma closed_no_reach ch (seen : list nat) target :
  (forall z, In z seen -> z <> target /\ forall y, In y (ch z) -> In y seen) ->
  forall s, In s seen -> ~ reach (fun a b => In b (ch a)) s target.
Proof.
  intros Hc s Hs Hr. induction Hr as [x|x y z Hxy _ IH]; [now destruct (Hc x Hs)|].
  apply IH; [exact Hc|]. destruct (Hc x Hs) as [_ H]. now apply H.
Qed.

Lemma descend_false_sound ch target : forall fuel seen stack,
  descend ch fuel seen stack target = Some false ->
  (forall z, In z seen -> z <> target /\ forall y, In y (ch z) -> In y seen \/ In y stack) ->
  forall s, In s stack \/ In s seen -> ~ reach (fun a b => In b (ch a)) s target.
Proof.
  induction fuel as [|f IH]; intros seen stack H Hinv s Hs; [discriminate|]. cbn [descend] in H.
  destruct stack as [|x rest].
  - destruct Hs as [[]|Hs]. eapply closed_no_reach; [|exact Hs].
    intros z Hz. destruct (Hinv z Hz) as [H1 H2]. split; [exact H1|]. intros y Hy. destruct (H2 y Hy) as [?|[]]; assumption.
  - destruct (x =? target) eqn:Et; [discriminate|]. apply Nat.eqb_neq in Et.
    destruct (nmem x seen) eqn:Es.
    + apply nmem_In in Es. apply (IH seen rest H).
      * intros z Hz. destruct (Hinv z Hz) as [H1 H2]. split; [exact H1|].
        intros y Hy. destruct (H2 y Hy) as [?|[<-|?]]; auto.
      * destruct Hs as [[<-|Hs]|Hs]; auto.
    + apply (IH (x :: seen) (rev (ch x) ++ rest) H).
      * intros z [<-|Hz].
        -- split; [exact Et|]. intros y Hy. right. apply in_app_iff. left. now apply -> in_rev.
        -- destruct (Hinv z Hz) as [H1 H2]. split; [exact H1|].
           intros y Hy. destruct (H2 y Hy) as [?|[<-|?]]; [left; now right|left; now left|right; apply in_app_iff; now right].
      * destruct Hs as [[<-|Hs]|Hs]; [right; now left|left; apply in_app_iff; now right|right; now right].
Qed.

Lemma descend_total N D ch target : (forall x y, In y (ch x) -> y < N) -> (forall x, length (ch x) <= D) ->
  forall fuel seen stack k, NoDup seen -> (forall v, In v seen -> v < N) -> (forall v, In v stack -> v < N) ->
  length seen + k = N -> k * (D + 1) + length stack < fuel ->
  descend ch fuel seen stack target <> None.
Proof.
  intros Hb Hd. induction fuel as [|f IH]; intros seen stack k Hn Hs Hst Hk Hf; [lia|].
  cbn [descend]. destruct stack as [|x rest]; [discriminate|].
  destruct (x =? target); [discriminate|]. destruct (nmem x seen) eqn:Es.
  - apply (IH seen rest k); auto; [intros v Hv; apply Hst; now right|cbn in Hf; lia].
  - assert (Hni : ~ In x seen) by (intro Hi; apply nmem_In in Hi; congruence).
    assert (Hx : x < N) by (apply Hst; now left).
    assert (Hnd : NoDup (x :: seen)) by now constructor.
    assert (Hbd : forall v, In v (x :: seen) -> v < N) by (intros v [<-|Hv]; auto).
    pose proof (nodup_bound (x :: seen) N Hnd Hbd) as Hlen. cbn in Hlen.
    destruct k as [|k']; [lia|].
    apply (IH (x :: seen) (rev (ch x) ++ rest) k'); auto.
    + intros v Hv. apply in_app_iff in Hv as [Hv|Hv]; [apply in_rev in Hv; eapply Hb; eauto|apply Hst; now right].
    + cbn. lia.
    + rewrite app_length, rev_length. pose proof (Hd x). cbn in Hf.
      replace (S k' * (D + 1)) with (D + 1 + k' * (D + 1)) in Hf by (cbn; lia). lia.
Qed.

(* ------------------------------------------------------------------ encloses = false: no path either way *)
Lemma encloses_false fo fuel obj scope : Acyclic (EP fo) -> encloses fo fuel obj scope = Some false ->
  ~ reach (EP fo) scope obj /\ ~ reach (EC fo) obj scope.
Proof.
  intros HA H. unfold encloses in H.
  destruct (climb (f_parent fo) fuel [] obj (Some scope)) as [[|]|] eqn:Ec; try discriminate. split.
  - eapply (climb_false_sound (f_parent fo) obj HA fuel [] (Some scope) Ec); [intros z []|reflexivity].
  - eapply (descend_false_sound (f_children fo) scope fuel [] [obj] H); [intros z []|left; now left].
Qed.

Theorem encloses_total N D fo obj scope :
  (forall x y, f_parent fo x = Some y -> y < N) -> (forall x y, In y (f_children fo x) -> y < N) ->
  (forall x, length (f_children fo x) <= D) -> obj < N -> scope < N ->
  encloses fo (N * (D + 1) + 2) obj scope <> None.
Proof.
  intros Hp Hc Hd Ho Hs. unfold encloses.
  destruct (climb (f_parent fo) (N * (D + 1) + 2) [] obj (Some scope)) as [[|]|] eqn:Ec; [discriminate| |].
  - apply (descend_total N D (f_children fo) scope Hc Hd _ [] [obj] N); auto.
    + constructor.
    + intros v [].
    + intros v [<-|[]]. exact Ho.
    + cbn. lia.
  - exfalso. revert Ec. apply (climb_total N (f_parent fo) obj Hp); auto.
    + constructor.
    + intros v [].
    + intros x Hx. inversion Hx; subst. exact Hs.
    + cbn. nia.
Qed.

(* ------------------------------------------------------------------ one operation, any sequence *)
Lemma remove_first_sub x l y : In y (remove_first x l) -> In y l.
Proof.
  induction l as [|z r IH]; cbn; [auto|]. destruct (x =? z); [auto|]. intros [<-|H]; auto.
Qed.

Lemma inc_step_ok fuel fo o : Forest_ok fo -> Forest_ok (inc_step fuel fo o).
Proof.
  intros [HP HC]. destruct o as [c p|p c]; cbn [inc_step].
  - destruct (encloses fo fuel c p) as [[|]|] eqn:Ee; try (split; assumption).
    destruct (encloses_false fo fuel c p HP Ee) as [H1 H2]. split.
    + apply (add_edge_acyclic (EP fo) (EP (set_parent fo c p)) c p); auto.
      intros a b Hab. unfold EP, set_parent in *. cbn in Hab.
      destruct (a =? c) eqn:Ea; [apply Nat.eqb_eq in Ea; inversion Hab; subst; now right|now left].
    + apply (add_edge_acyclic (EC fo) (EC (set_parent fo c p)) p c); auto.
      intros a b Hab. unfold EC, set_parent in *. cbn in Hab.
      destruct (a =? p) eqn:Ea; [|now left]. apply Nat.eqb_eq in Ea. subst.
      apply in_app_iff in Hab as [Hab|[<-|[]]]; [now left|now right].
  - split; [exact HP|]. eapply acyclic_sub; [|exact HC].
    intros a b Hab. unfold EC in *. cbn in Hab. destruct (a =? p); [eapply remove_first_sub; eauto|exact Hab].
Qed.

Lemma inc_run_ok fuel ops : forall fo, Forest_ok fo -> Forest_ok (fold_left (inc_step fuel) ops fo).
Proof. induction ops as [|o ops IH]; intros fo H; cbn; [exact H|]. apply IH. now apply inc_step_ok. Qed.

(* ------------------------------------------------------------------ what acyclicity buys: unguarded walks end *)
Lemma parent_climb_ends N par : (forall x y, par x = Some y -> y < N) -> Acyclic (fun x y => par x = Some y) ->
  forall fuel seen x, NoDup seen -> (forall v, In v seen -> v < N) -> x < N ->
  (forall z, In z seen -> exists y, par z = Some y /\ reach (fun a b => par a = Some b) y x) ->
  N + 1 <= length seen + fuel -> walk_unguarded par fuel (Some x) <> None.
Proof.
  intros Hb HA. induction fuel as [|f IH]; intros seen x Hn Hs Hx Hinv Hf.
  - pose proof (nodup_bound seen N Hn Hs). lia.
  - assert (Hni : ~ In x seen).
    { intro Hi. destruct (Hinv x Hi) as (y' & Hy' & Hr). exact (HA x y' Hy' Hr). }
    assert (Hnd : NoDup (x :: seen)) by now constructor.
    assert (Hbd : forall v, In v (x :: seen) -> v < N) by (intros v [<-|Hv]; auto).
    pose proof (nodup_bound (x :: seen) N Hnd Hbd) as Hlen. cbn in Hlen.
    cbn [walk_unguarded]. destruct (par x) as [y|] eqn:Ey.
    + assert (Hrec : walk_unguarded par f (Some y) <> None).
      { apply (IH (x :: seen) y); auto.
        - eapply Hb; eauto.
        - intros z [<-|Hz]; [exists y; split; [exact Ey|constructor]|].
          destruct (Hinv z Hz) as (y' & Hy' & Hr). exists y'. split; [exact Hy'|]. eapply reach_snoc; eauto.
        - cbn. lia. }
      destruct (walk_unguarded par f (Some y)); [discriminate|congruence].
    + destruct f; [lia|]. cbn. discriminate.
Qed.

(* recursion into the children (update_fqsn): depth bounded by the number of objects *)
Lemma fqsn_walk_ends N ch : (forall x y, In y (ch x) -> y < N) -> Acyclic (fun x y => In y (ch x)) ->
  forall fuel path x, NoDup path -> (forall v, In v path -> v < N) -> x < N ->
  (forall z, In z path -> exists y, In y (ch z) /\ reach (fun a b => In b (ch a)) y x) ->
  N + 1 <= length path + fuel -> fqsn_walk ch fuel x <> None.
Proof.
  intros Hb HA. induction fuel as [|f IH]; intros path x Hn Hs Hx Hinv Hf.
  - pose proof (nodup_bound path N Hn Hs). lia.
  - cbn [fqsn_walk].
    assert (Hni : ~ In x path).
    { intro Hi. destruct (Hinv x Hi) as (y' & Hy' & Hr). exact (HA x y' Hy' Hr). }
    assert (Hrec : forall y, In y (ch x) -> fqsn_walk ch f y <> None).
    { intros y Hy. apply (IH (x :: path) y).
      - now constructor.
      - intros v [<-|Hv]; auto.
      - eapply Hb; eauto.
      - intros z [<-|Hz]; [exists y; split; [exact Hy|constructor]|].
        destruct (Hinv z Hz) as (y' & Hy' & Hr). exists y'. split; [exact Hy'|]. eapply reach_snoc; eauto.
      - cbn. lia. }
    generalize 0 as acc. induction (ch x) as [|y r IHr]; intro acc; [discriminate|].
    destruct (fqsn_walk ch f y) as [k|] eqn:Ek.
    + apply IHr. intros z Hz. apply Hrec. now right.
    + exfalso. eapply Hrec; [now left|exact Ek].
Qed.

(* a forest produced by the parser (parents point backwards, children forwards) is acyclic *)
Lemma backwards_acyclic (E : nat -> nat -> Prop) : (forall x y, E x y -> y < x) -> Acyclic E.
Proof.
  intros H x y Hxy Hr. assert (Hle : forall a b, reach E a b -> b <= a).
  { induction 1 as [|a b c Hab _ IH]; [lia|]. specialize (H _ _ Hab). lia. }
  specialize (H _ _ Hxy). specialize (Hle _ _ Hr). lia.
Qed.

Lemma forwards_acyclic (E : nat -> nat -> Prop) : (forall x y, E x y -> x < y) -> Acyclic E.
Proof.
  intros H x y Hxy Hr. assert (Hle : forall a b, reach E a b -> a <= b).
  { induction 1 as [|a b c Hab _ IH]; [lia|]. specialize (H _ _ Hab). lia. }
  specialize (H _ _ Hxy). specialize (Hle _ _ Hr). lia.
Qed.
