(* C20/Props.v -- property theorems only.  Statement of C20: cyclic and self-referential
   program structure never causes unbounded recursion.  For every finite object graph, cyclic or
   not, and every start node, each walk of the implementation (modelled with explicit fuel, where
   running out of fuel = RecursionError / endless loop) finishes with fuel N + 1, N = number of objects.
   Model: Shared/Walks.v, Shared/ScopeMachine.v; tie: harness/props/c20.py. *)
From FV Require Import Base.Str Shared.Walks Shared.ScopeMachine C20.Proofs.

(* get_ancestors, get_overridden, is_linked_from (the guard in front of every link_obj
   delegation): a guarded pointer walk *)
Theorem guarded_walk_terminates : forall N next stop start,
  (forall x y, next x = Some y -> y < N) -> (forall y, start = Some y -> y < N) ->
  walk next stop (N + 1) [] start <> None.
Proof.
  intros N next stop start Hn Hs. apply (walk_terminates N next Hn stop); auto.
  - constructor.
  - intros v [].
Qed.
Print Assumptions guarded_walk_terminates.

(* get_use_tree: modules that USE each other in any pattern *)
Theorem use_tree_terminates : forall N uses x,
  (forall a b, In b (uses a) -> b < N) -> x < N ->
  use_tree uses (N + 1) [] x <> None.
Proof.
  intros N uses x Hu Hx. apply (use_tree_terminates_gen N uses Hu); auto.
  - constructor.
  - intros v [].
Qed.
Print Assumptions use_tree_terminates.

(* parent pointers built by the parser always point to an earlier object, for every file;
   so host association, get_implicit and FQSN walks need no guard *)
Theorem parent_chain_acyclic : forall l last s,
  parse l last = Ok s ->
  forall i x p, nth_error (scopes s) i = Some x -> s_parent x = Some p -> p < i.
Proof. exact parents_point_backwards. Qed.
Print Assumptions parent_chain_acyclic.

Theorem host_walk_needs_no_guard : forall l last s i,
  parse l last = Ok s -> host_walk (scopes s) (S i) i <> None.
Proof.
  intros l last s i H. apply host_walk_terminates; [|lia]. exact (parents_point_backwards l last s H).
Qed.
Print Assumptions host_walk_needs_no_guard.

(* the pinned tree followed the pointers without a guard: on a self-loop no fuel suffices *)
Theorem C20_refuted_unguarded_walk : exists next start, forall fuel, walk_unguarded next fuel start = None.
Proof.
  exists (fun _ => Some 0), (Some 0). induction fuel as [|f IH]; [reflexivity|]. cbn. now rewrite IH.
Qed.
Print Assumptions C20_refuted_unguarded_walk.

(* non-vacuity: a 3-cycle of submodule parents, a self-link, two modules using each other *)
Example C20_nonvacuous :
  walk (fun x => Some ((x + 1) mod 3)) (Some 0) 4 [] (Some 1) = Some ([1; 2], true) /\
  walk (fun x => Some x) (Some 5) 7 [] (Some 5) = Some ([], true) /\
  walk (fun x => if x =? 2 then None else Some (S x)) None 4 [] (Some 0) = Some ([0; 1; 2], false) /\
  use_tree (fun x => match x with 0 => [1; 2] | 1 => [2; 0] | _ => [0; 1] end) 4 [] 0 = Some 5.
Proof. vm_compute. repeat split. Qed.
Print Assumptions C20_nonvacuous.

(* ---- files that INCLUDE each other: the scope graph under INCLUDE resolution *)
From FV Require Import C20.Forest.

(* every sequence of attach (guarded by ast.encloses) and detach operations, started on a graph
   without cycles, leaves a graph without cycles -- in the parent links and in the children lists *)
Theorem include_resolution_keeps_scope_graph_acyclic : forall fuel ops fo,
  Forest_ok fo -> Forest_ok (fold_left (inc_step fuel) ops fo).
Proof. intros fuel ops fo H. exact (inc_run_ok fuel ops fo H). Qed.
Print Assumptions include_resolution_keeps_scope_graph_acyclic.

(* the graphs the parser builds (parents before, children after the object) are such graphs *)
Theorem parsed_scope_graph_is_acyclic : forall fo,
  (forall x y, f_parent fo x = Some y -> y < x) -> (forall x y, In y (f_children fo x) -> x < y) -> Forest_ok fo.
Proof. intros fo H1 H2. split; [apply backwards_acyclic; exact H1|apply forwards_acyclic; exact H2]. Qed.
Print Assumptions parsed_scope_graph_is_acyclic.

(* the guard itself answers within N * (D + 1) + 2 steps on any graph of N objects with at most D children each *)
Theorem encloses_terminates : forall N D fo obj scope,
  (forall x y, f_parent fo x = Some y -> y < N) -> (forall x y, In y (f_children fo x) -> y < N) ->
  (forall x, length (f_children fo x) <= D) -> obj < N -> scope < N ->
  encloses fo (N * (D + 1) + 2) obj scope <> None.
Proof. exact encloses_total. Qed.
Print Assumptions encloses_terminates.

(* and on the resulting graph the unguarded recursions end: host association / get_implicit climb
   the parent links, update_fqsn descends the children *)
Theorem walks_after_include_resolution_terminate : forall N fuel ops fo x,
  Forest_ok fo ->
  (forall a b, f_parent (fold_left (inc_step fuel) ops fo) a = Some b -> b < N) ->
  (forall a b, In b (f_children (fold_left (inc_step fuel) ops fo) a) -> b < N) -> x < N ->
  walk_unguarded (f_parent (fold_left (inc_step fuel) ops fo)) (N + 1) (Some x) <> None /\
  fqsn_walk (f_children (fold_left (inc_step fuel) ops fo)) (N + 1) x <> None.
Proof.
  intros N fuel ops fo x H Hp Hc Hx. destruct (inc_run_ok fuel ops fo H) as [HP HC]. split.
  - apply (parent_climb_ends N _ Hp HP (N + 1) [] x); auto; [constructor|intros v []|intros z []].
  - apply (fqsn_walk_ends N _ Hc HC (N + 1) [] x); auto; [constructor|intros v []|intros z []].
Qed.
Print Assumptions walks_after_include_resolution_terminate.

(* without the guard (the pinned tree): a procedure attached to itself, and update_fqsn never returns *)
Theorem C20_refuted_unguarded_include : exists fo ops x,
  Forest_ok fo /\ forall fuel, fqsn_walk (f_children (fold_left inc_step_unguarded ops fo)) fuel x = None.
Proof.
  exists {| f_parent := fun _ => None; f_children := fun _ => [] |}, [Attach 1 1], 1. split.
  - split; intros x y H; [discriminate H|destruct H].
  - induction fuel as [|f IH]; [reflexivity|]. cbn in *. now rewrite IH.
Qed.
Print Assumptions C20_refuted_unguarded_include.

(* non-vacuity: f.f90 = {0: top level, 1: d}, g.f90 = {2: top level, 3: e1}, h.f90 = {4: top level, 5: e2};
   e1 and e2 include f.f90, d includes g.f90: the third attach is refused through the stale child link e1 -> d *)
Example C20_include_nonvacuous :
  let fo0 := {| f_parent := fun x => match x with 1 => Some 0 | 3 => Some 2 | 5 => Some 4 | _ => None end;
                f_children := fun x => match x with 0 => [1] | 2 => [3] | 4 => [5] | _ => [] end |} in
  let fo2 := fold_left (inc_step 20) [Attach 1 3; Attach 1 5] fo0 in
  let fo3 := inc_step 20 fo2 (Attach 3 1) in
  f_parent fo2 1 = Some 5 /\ f_children fo2 3 = [1] /\ f_children fo2 5 = [1] /\
  encloses fo2 20 3 1 = Some true /\ f_children fo3 1 = [] /\ f_parent fo3 3 = Some 2 /\
  climb (f_parent fo2) 20 [] 3 (Some 1) = Some false /\
  fqsn_walk (f_children fo3) 7 0 = Some 2 /\ fqsn_walk (f_children fo3) 7 2 = Some 3.
Proof. vm_compute. repeat split. Qed.
Print Assumptions C20_include_nonvacuous.
