(* C20/Props.v -- property theorems only.  Statement of C20: cyclic and self-referential
   program structure never causes unbounded recursion.  For every finite object graph, cyclic or
   not, and every start node, each walk of the implementation (modelled with explicit fuel, where
   running out of fuel = RecursionError / endless loop) finishes with fuel N + 1, N = number of objects.
   Model: Shared/Walks.v, Shared/ScopeMachine.v; tie: harness/props/c20.py. *)
From FV Require Import Base.Str Shared.Walks Shared.ScopeMachine C20.Proofs.

(* get_ancestors, get_overridden, is_linked_from (the guard in front of every link_obj
   delegation): a guarded pointer walk *)
Theorem guarded_walk_terminates : forall N next stop start,
  (forall x y, next x = Some y -> y < N) -> (forall y, start = Some y -> y < N) ->
  walk next stop (N + 1) [] start <> None.
Proof.
  intros N next stop start Hn Hs. apply (walk_terminates N next Hn stop); auto.
  - constructor.
  - intros v [].
Qed.
Print Assumptions guarded_walk_terminates.

(* get_use_tree: modules that USE each other in any pattern *)
Theorem use_tree_terminates : forall N uses x,
  (forall a b, In b (uses a) -> b < N) -> x < N ->
  use_tree uses (N + 1) [] x <> None.
Proof.
  intros N uses x Hu Hx. apply (use_tree_terminates_gen N uses Hu); auto.
  - constructor.
  - intros v [].
Qed.
Print Assumptions use_tree_terminates.

(* parent pointers built by the parser always point to an earlier object, for every file;
   so host association, get_implicit and FQSN walks need no guard *)
Theorem parent_chain_acyclic : forall l last s,
  parse l last = Ok s ->
  forall i x p, nth_error (scopes s) i = Some x -> s_parent x = Some p -> p < i.
Proof. exact parents_point_backwards. Qed.
Print Assumptions parent_chain_acyclic.

Theorem host_walk_needs_no_guard : forall l last s i,
  parse l last = Ok s -> host_walk (scopes s) (S i) i <> None.
Proof.
  intros l last s i H. apply host_walk_terminates; [|lia]. exact (parents_point_backwards l last s H).
Qed.
Print Assumptions host_walk_needs_no_guard.

(* the pinned tree followed the pointers without a guard: on a self-loop no fuel suffices *)
Theorem C20_refuted_unguarded_walk : exists next start, forall fuel, walk_unguarded next fuel start = None.
Proof.
  exists (fun _ => Some 0), (Some 0). induction fuel as [|f IH]; [reflexivity|]. cbn. now rewrite IH.
Qed.
Print Assumptions C20_refuted_unguarded_walk.

(* non-vacuity: a 3-cycle of submodule parents, a self-link, two modules using each other *)
Example C20_nonvacuous :
  walk (fun x => Some ((x + 1) mod 3)) (Some 0) 4 [] (Some 1) = Some ([1; 2], true) /\
  walk (fun x => Some x) (Some 5) 7 [] (Some 5) = Some ([], true) /\
  walk (fun x => if x =? 2 then None else Some (S x)) None 4 [] (Some 0) = Some ([0; 1; 2], false) /\
  use_tree (fun x => match x with 0 => [1; 2] | 1 => [2; 0] | _ => [0; 1] end) 4 [] 0 = Some 5.
Proof. vm_compute. repeat split. Qed.
Print Assumptions C20_nonvacuous.
