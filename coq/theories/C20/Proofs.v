(* C20/Proofs.v *)
From FV Require Import Base.Str Shared.Walks.

Lemma nmem_In x l : nmem x l = true <-> In x l.
Proof.
  induction l as [|y l IH]; cbn; [split; [discriminate|tauto]|].
  rewrite orb_true_iff, Nat.eqb_eq, IH. split; intros [H|H]; auto.
Qed.

(* pigeonhole: a duplicate-free list of numbers below N has at most N elements *)
Lemma nodup_bound l N : NoDup l -> (forall x, In x l -> x < N) -> length l <= N.
Proof.
  intros Hn Hb. rewrite <- (seq_length N 0). apply NoDup_incl_length; [exact Hn|].
  intros x Hx. apply in_seq. specialize (Hb x Hx). lia.
Qed.

Lemma NoDup_app_snoc (l : list nat) y : NoDup l -> ~ In y l -> NoDup (l ++ [y]).
Proof.
  intros Hn Hy. induction Hn as [|x l Hx Hl IH]; cbn; [constructor; [tauto|constructor]|].
  constructor.
  - intro H. apply in_app_iff in H as [H|[H|[]]]; [tauto|]. subst. apply Hy. now left.
  - apply IH. intro H. apply Hy. now right.
Qed.

Section Bounded.
Variable N : nat.

(* ---- single-pointer walks *)
Variable next : nat -> option nat.
Hypothesis next_bound : forall x y, next x = Some y -> y < N.

Lemma walk_terminates stop : forall fuel visited x,
  NoDup visited -> (forall v, In v visited -> v < N) -> (forall y, x = Some y -> y < N) ->
  N + 1 <= length visited + fuel ->
  walk next stop fuel visited x <> None.
Proof.
  induction fuel as [|f IH]; intros visited x Hn Hb Hx Hf.
  - pose proof (nodup_bound visited N Hn Hb). lia.
  - cbn [walk]. destruct x as [y|]; [|discriminate].
    destruct ((match stop with Some s => y =? s | None => false end) || nmem y visited) eqn:E; [discriminate|].
    apply orb_false_iff in E as [_ E].
    assert (Hny : ~ In y visited) by (intro H; apply nmem_In in H; congruence).
    apply IH.
    + apply NoDup_app_snoc; assumption.
    + intros v Hv. apply in_app_iff in Hv as [Hv|[<-|[]]]; [now apply Hb|now apply Hx].
    + intros z Hz. eapply next_bound; eauto.
    + rewrite app_length. cbn. lia.
Qed.

(* ---- the USE recursion *)
Variable uses : nat -> list nat.
Hypothesis uses_bound : forall x y, In y (uses x) -> y < N.

Lemma use_tree_terminates_gen : forall fuel path x,
  NoDup path -> (forall v, In v path -> v < N) -> x < N ->
  N + 1 <= length path + fuel ->
  use_tree uses fuel path x <> None.
Proof.
  induction fuel as [|f IH]; intros path x Hn Hb Hx Hf.
  - pose proof (nodup_bound path N Hn Hb). lia.
  - cbn [use_tree]. destruct (nmem x path) eqn:E; [discriminate|].
    assert (Hnx : ~ In x path) by (intro H; apply nmem_In in H; congruence).
    assert (Hrec : forall y, In y (uses x) -> use_tree uses f (path ++ [x]) y <> None).
    { intros y Hy. apply IH.
      - apply NoDup_app_snoc; assumption.
      - intros v Hv. apply in_app_iff in Hv as [Hv|[<-|[]]]; [now apply Hb|exact Hx].
      - eapply uses_bound; eauto.
      - rewrite app_length. cbn. lia. }
    generalize 0 as acc. induction (uses x) as [|y r IHr]; intro acc; [discriminate|].
    destruct (use_tree uses f (path ++ [x]) y) as [k|] eqn:Ek.
    + apply IHr. intros z Hz. apply Hrec. now right.
    + exfalso. eapply Hrec; [now left|exact Ek].
Qed.
End Bounded.

(* ------------------------------------------------------------------ parent pointers form a forest *)
From FV Require Import Shared.ScopeMachine C03.Proofs.

Definition PB (s : st) : Prop :=
  forall i x p, nth_error (scopes s) i = Some x -> s_parent x = Some p -> p < i.

Lemma nth_error_set_nth {A} (l : list A) f : forall i j,
  nth_error (set_nth l i f) j = if i =? j then option_map f (nth_error l j) else nth_error l j.
Proof.
  induction l as [|x l IH]; intros [|i] [|j]; cbn; try reflexivity.
  - destruct (i =? j); reflexivity.
  - apply IH.
Qed.

Lemma PB_set_eline s c n sc' : PB s -> scopes sc' = set_nth (scopes s) c (set_eline n) -> PB sc'.
Proof.
  intros H E i x p Hn Hp. rewrite E, nth_error_set_nth in Hn.
  destruct (c =? i).
  - destruct (nth_error (scopes s) i) as [y|] eqn:Ey; [|discriminate]. cbn in Hn. inversion Hn; subst x.
    cbn in Hp. eapply H; eauto.
  - eapply H; eauto.
Qed.

Lemma PB_same s s' : PB s -> scopes s' = scopes s -> PB s'.
Proof. intros H E i x p. rewrite E. apply H. Qed.

Lemma PB_raw_add s k name n e ex : Inv s -> PB s -> PB (raw_add s k name n e ex).
Proof.
  intros I H i x p Hn Hp. unfold raw_add in Hn.
  destruct (cur s) as [c|] eqn:Ec; cbn [scopes] in Hn.
  - destruct (Nat.lt_ge_cases i (length (scopes s))) as [Hl|Hl].
    + rewrite nth_error_app1 in Hn by exact Hl. eapply H; eauto.
    + rewrite nth_error_app2 in Hn by exact Hl. destruct (i - length (scopes s)) eqn:Ed; [|destruct n0; discriminate].
      cbn in Hn. inversion Hn; subst x. cbn in Hp. inversion Hp; subst p.
      pose proof (i_lt s I) as Hlt. unfold chain in Hlt. rewrite Ec in Hlt. inversion Hlt; subst. lia.
  - destruct (Nat.lt_ge_cases i (length (scopes s))) as [Hl|Hl].
    + rewrite nth_error_app1 in Hn by exact Hl. eapply H; eauto.
    + rewrite nth_error_app2 in Hn by exact Hl. destruct (i - length (scopes s)) eqn:Ed; [|destruct n0; discriminate].
      cbn in Hn. inversion Hn; subst x. discriminate.
Qed.

Lemma PB_create_none s s1 : Inv s -> PB s -> create_none s = Some s1 -> PB s1.
Proof.
  intros I H E. unfold create_none in E. destruct (none_s s); [discriminate|]. inversion E; subst s1.
  eapply PB_same; [apply (PB_raw_add s KNone [109; 97; 105; 110]%N 1 ERNoneProg false I H)|reflexivity].
Qed.

Lemma inv_create_none s s1 : Inv s -> cur s = None -> create_none s = Some s1 -> Inv s1.
Proof. intros I Hc E. destruct (create_none_ok s I Hc) as [s2 [E2 [I2 _]]]. congruence. Qed.

Lemma PB_add_scope s k name n s1 : Inv s -> PB s -> add_scope s k name n = Some s1 -> PB s1.
Proof.
  intros I H E. unfold add_scope in E. destruct (cur s) as [c|] eqn:Ec.
  - inversion E; subst. now apply PB_raw_add.
  - destruct (req_container k).
    + destruct (create_none s) as [s0|] eqn:E0; [|discriminate]. inversion E; subst.
      apply PB_raw_add; [eapply inv_create_none; eauto|eapply PB_create_none; eauto].
    + inversion E; subst. now apply PB_raw_add.
Qed.

Lemma PB_end_scope s n chk s1 : PB s -> end_scope s n chk = Some s1 -> PB s1.
Proof.
  intros H E. unfold end_scope in E.
  match type of E with (if ?c then _ else _) = _ => destruct c end.
  - inversion E; subst. eapply PB_same; [exact H|reflexivity].
  - destruct (cur s) as [c|]; [|discriminate].
    destruct (sstack s); destruct (estack s); inversion E; subst; (eapply PB_set_eline; [exact H|reflexivity]).
Qed.

Lemma PB_ensure s s1 : Inv s -> PB s -> ensure_scope s = Ok s1 -> PB s1.
Proof.
  intros I H E. unfold ensure_scope in E. destruct (cur s) eqn:Ec; [inversion E; now subst|].
  destruct (create_none s) as [s0|] eqn:E0; cbn in E; [|discriminate]. inversion E; subst. eapply PB_create_none; eauto.
Qed.

Lemma PB_close_labels fuel : forall s n lbl s1, Inv s -> PB s -> close_labels fuel s n lbl = Ok s1 -> PB s1.
Proof.
  induction fuel as [|f IH]; intros s n lbl s1 I H E; cbn [close_labels] in E; [inversion E; now subst|].
  destruct (labels s) as [|top rest]; [inversion E; now subst|].
  destruct (str_eqb lbl top); [|inversion E; now subst].
  destruct (end_scope s n true) as [s0|] eqn:E0; [|discriminate].
  destruct (end_scope_checked_ok s n I) as [s0' [E0' [I0 _]]]. rewrite E0 in E0'. inversion E0'; subst s0'.
  refine (IH _ n lbl s1 _ _ E).
  - now apply inv_with_labels.
  - eapply PB_same; [eapply PB_end_scope; eauto|reflexivity].
Qed.

Lemma PB_step_end s n bare ends s1 : Inv s -> PB s -> step_end s n bare ends = Ok s1 -> PB s1.
Proof.
  intros I H E. unfold step_end in E.
    destruct (eregex s) as [r|]; [|inversion E; now subst].
    destruct (cur_kind s) as [k|]; [|discriminate].
    match type of E with context [if ?c then ?a else s] => set (s0 := if c then a else s) in * end.
    assert (H0 : PB s0) by (unfold s0; match goal with |- PB (if ?c then _ else _) => destruct c end; [eapply PB_same; [exact H|reflexivity]|exact H]).
    destruct (bare || existsb (ereg_eqb r) ends); [|inversion E; now subst].
    destruct (is_select k && is_type_region k).
    + destruct (end_scope s0 n true) as [s2|] eqn:E2; [|discriminate].
      destruct (end_scope s2 n true) as [s3|] eqn:E3; cbn in E; [|discriminate]. inversion E; subst.
      eapply PB_end_scope; [eapply PB_end_scope; eauto|eauto].
    + destruct (end_scope s0 n true) as [s3|] eqn:E3; cbn in E; [|discriminate]. inversion E; subst. eapply PB_end_scope; eauto.
Qed.

Lemma PB_step s n t s1 : Inv s -> PB s -> step s n t = Ok s1 -> PB s1.
Proof.
  intros I H E. destruct t as [bare ends|lbl|k name|lbl name|ty name|name|name|pro| | |bare ends lbl]; cbn [step] in E.
  - eapply PB_step_end; eauto.
  - destruct (eregex s); [|inversion E; now subst].
    destruct (cur_kind s) as [k|]; [|discriminate].
    destruct k; try (inversion E; now subst). eapply PB_close_labels; eauto.
  - destruct (add_scope s k name n) as [s0|] eqn:E0; cbn in E; [|discriminate]. inversion E; subst. eapply PB_add_scope; eauto.
  - match type of E with context [add_scope ?x KDo name n] => set (s0 := x) in * end.
    assert (I0 : Inv s0) by (unfold s0; destruct lbl; [exact I|now apply inv_with_labels]).
    assert (H0 : PB s0) by (unfold s0; destruct lbl; [exact H|eapply PB_same; eauto]).
    destruct (add_scope s0 KDo name n) as [s2|] eqn:E2; cbn in E; [|discriminate]. inversion E; subst. eapply PB_add_scope; eauto.
  - assert (H0 : exists s0, match cur_kind s with
                            | Some k => if is_select k && is_type_region k then end_scope s n true else Some s
                            | None => Some s end = Some s0 /\ Inv s0 /\ PB s0).
    { destruct (cur_kind s) as [k|]; [|eauto]. destruct (is_select k && is_type_region k); [|eauto].
      destruct (end_scope_checked_ok s n I) as [sx [Hx [Ix _]]]. exists sx. split; [exact Hx|]. split; [exact Ix|]. eapply PB_end_scope; eauto. }
    destruct H0 as [s0 [E0 [I0 P0]]]. rewrite E0 in E.
    destruct (add_scope s0 (KSelect ty) name n) as [s2|] eqn:E2; cbn in E; [|discriminate]. inversion E; subst. eapply PB_add_scope; eauto.
  - destruct (add_scope s KInt name n) as [s0|] eqn:E0; [|discriminate].
    destruct (end_scope s0 n true) as [s2|] eqn:E2; cbn in E; [|discriminate]. inversion E; subst.
    eapply PB_end_scope; [eapply PB_add_scope; eauto|eauto].
  - destruct (cur_kind s) as [[]|]; try (inversion E; now subst).
    destruct (add_scope s KImpl name n) as [s0|] eqn:E0; cbn in E; [|discriminate]. inversion E; subst. eapply PB_add_scope; eauto.
  - destruct (if pro then match cur_kind s with Some KInt => true | _ => false end else false); [inversion E; now subst|].
    eapply PB_ensure; eauto.
  - eapply PB_ensure; eauto.
  - inversion E; now subst.
  - (* labelled END DO: the scope part is that of END, the label list does not matter *)
    destruct (step_end s n bare ends) as [s2|] eqn:E2; [|discriminate].
    pose proof (PB_step_end s n bare ends s2 I H E2) as H2.
    destruct (cur_kind s) as [[]|]; try (inversion E; now subst).
    destruct (labels s2) as [|top rest]; [inversion E; now subst|].
    destruct (_ && _); inversion E; subst; [eapply PB_same; [exact H2|reflexivity]|exact H2].
Qed.

Lemma PB_run l : forall s n s1, Inv s -> PB s -> run s n l = Ok s1 -> PB s1.
Proof.
  induction l as [|[ln t] l IH]; intros s n s1 I H E; cbn [run] in E; [inversion E; now subst|].
  destruct (step s ln t) as [s0|] eqn:E0; [|discriminate].
  destruct (step_ok s ln t I) as [s0' [E0' I0]]. rewrite E0 in E0'. inversion E0'; subst s0'.
  refine (IH s0 ln s1 I0 _ E). exact (PB_step s ln t s0 I H E0).
Qed.

Lemma PB_close_all n fuel : forall s s1, PB s -> close_all fuel s n = Ok s1 -> PB s1.
Proof.
  induction fuel as [|f IH]; intros s s1 H E; cbn [close_all] in E; [inversion E; now subst|].
  destruct (cur s); [|inversion E; now subst].
  destruct (end_scope s n false) as [s0|] eqn:E0; [|discriminate].
  refine (IH s0 s1 _ E). exact (PB_end_scope s n false s0 H E0).
Qed.

Theorem parents_point_backwards l last s : parse l last = Ok s -> PB s.
Proof.
  unfold parse. intro E. destruct (run init 0 l) as [s0|] eqn:E0; [|discriminate].
  assert (H0 : PB s0).
  { eapply PB_run; [apply inv_init| |exact E0]. intros i x p Hn. destruct i; discriminate. }
  unfold close_file in E. destruct (close_all (S (length (sstack s0))) s0 last) as [s1|] eqn:E1; [|discriminate].
  pose proof (PB_close_all last _ s0 s1 H0 E1) as H1.
  destruct (none_s s1) as [m|]; inversion E; subst; [eapply PB_set_eline; [exact H1|reflexivity]|exact H1].
Qed.

(* hence a walk along parent pointers needs at most (index + 1) steps *)
Fixpoint host_walk (sc : list scope) (fuel i : nat) : option nat :=
  match fuel with
  | O => None
  | S f => match nth_error sc i with
           | Some x => match s_parent x with Some p => option_map S (host_walk sc f p) | None => Some 1 end
           | None => Some 0
           end
  end.

Lemma host_walk_terminates sc :
  (forall i x p, nth_error sc i = Some x -> s_parent x = Some p -> p < i) ->
  forall fuel i, i < fuel -> host_walk sc fuel i <> None.
Proof.
  intro H. induction fuel as [|f IH]; intros i Hi; [lia|]. cbn [host_walk].
  destruct (nth_error sc i) as [x|] eqn:Ex; [|discriminate].
  destruct (s_parent x) as [p|] eqn:Ep; [|discriminate].
  specialize (H i x p Ex Ep). specialize (IH p ltac:(lia)).
  destruct (host_walk sc f p); [discriminate|congruence].
Qed.
