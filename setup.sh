#!/bin/sh
# setup_cmd: build the Coq development from clean (full .vo build) -- offline, files on disk only.
set -e
cd "$(dirname "$0")"
/venv/bin/python -c "
import sys; sys.path.insert(0,'.')
from harness import gen_all
gen_all.regenerate_all()
from harness.common import coq_make
ok, log = coq_make()
print(log[-3000:])
sys.exit(0 if ok else 1)
"
