#!/bin/sh
# usage: goal.sh file.v LINE [tail-lines]  -- show the proof state after LINE (run from /verif/coq)
f=$1; n=$2; t=${3:-40}
head -n $n $f > /tmp/_goal.v
echo "Show." >> /tmp/_goal.v
coqtop -Q theories FV -quiet < /tmp/_goal.v 2>&1 | tail -n $t
