#!/usr/bin/env python3
"""Writes /verif/MANIFEST.json from the table below (single source of truth)."""
import json, os
HERE = os.path.dirname(os.path.dirname(os.path.abspath(__file__)))
ALL = ["C%02d" % i for i in range(1, 21)]

CHECKS = {
 "C01": dict(
  text="Coq theorems (C01/Props.v) for every dispatcher description satisfying wf_proto and every handler oracle, by induction over the "
       "message list: response ids = request ids up to and including the first exit, in arrival order, one each; notifications silent; "
       "unknown method -> -32601; handler failure -> -32603 and the loop stays alive; status Running iff no exit. The description of the "
       "current source (method table, except clauses, codes, run loop shape, every conn writer, every assignment to running) is regenerated "
       "from fortls/langserver.py on every run and `wf_proto proto = true` is re-proved; LangServer.run() is trace-validated against the model.",
  note="Trusted: Coq kernel, vm_compute, the ast translator (fail closed), trace validation harness. Hypothesis: handler results are JSON-serialisable "
       "(refuted-without-it witness in Props.v; monitored on every payload). Handlers are an oracle.",
  technique="Rocq proof (induction over message histories) over a model regenerated from source by a translator + trace validation",
  design="4/C01"),
 "C02": dict(
  text="Coq theorems (C02/Props.v): splitlines glue lemma; apply_change refines the client's flat-string edit for every text, "
       "every split position and every inserted text under the junction-clean hypothesis; lifted over edit histories. "
       "Model tied to FortranFile.apply_change/serve_onChange by differential execution on every run; reference LSP client as oracle.",
  note="Trusted: Coq kernel, vm_compute, the hand model's correspondence run, the reference client. Hypotheses: junction-clean edits, "
       "code-point columns. Known findings: CR/LF junction, TAB in initial file, UTF-16 columns right of astral characters.",
  technique="Rocq proof (refinement of a flat-string client, induction over histories) + model/implementation differential",
  design="4/C02"),
 "C16": dict(
  text="Coq theorems (C16/Props.v): json.dumps(ensure_ascii) output is ASCII for every payload over the full code-point range, UTF-8 of ASCII is "
       "the identity, hence Content-Length = body byte length; the reader model splits any sequence of frames with any of three header layouts "
       "and arbitrary body bytes into exactly the bodies sent; read(n)/readline over any chunking equal those over the whole stream, and so does every reader program built from them, _receive and the read loop included (C16/Chunks.v: any frames in any chunks are decoded into exactly the bodies sent); what _send writes back to back is decoded into exactly the serialised payloads; path_from_uri inverts path_to_uri; "
       "percent-encoding round-trips for all bytes / all code points. Model tied to fortls.jsonrpc by differential execution; independent framer as oracle.",
  note="Trusted: Coq kernel, vm_compute, correspondence run, CPython json/io.BufferedReader/urllib/pathlib. Not modelled: JSON structure parsing, floats, Path.resolve.",
  technique="Rocq proof (codec round trips, ASCII invariant by induction on JSON values) + model/implementation differential",
  design="4/C16"),
 "C19": dict(
  text="Coq theorems (C19/Props.v), generic in the loader: for every well-formed statement list, every command-line environment and every file "
       "dictionary each loaded option holds the file's value if the file has the key and the command-line value otherwise (all options at once, "
       "hence pairs); untouched attributes keep their value; derived settings follow the effective values; every faulty file (missing when "
       "requested, unreadable, invalid syntax, nested too deeply for the reader, non-dictionary, ill-typed value) gives exactly one message, the command-line environment and no exception. "
       "The loader statements, the try/except structure and the option table are regenerated from the source on every run and wf is re-proved; "
       "effective attributes, 7 observable effects and the validator's accept/reject matrix are compared with the implementation.",
  note="Trusted: Coq kernel, vm_compute, translator (argparse object + ast, fail closed), differential harness. Values are opaque to the model. "
       "Unreadable files not exercised (root). Keys colliding with non-option attributes are outside the model.",
  technique="Rocq proof (generic loader theorem over a statement list regenerated from source by a translator) + differential on every option",
  design="4/C19"),
 "C18": dict(
  text="Coq theorems (C18/Props.v): for every directory tree, every configuration (as glob expansions) and every suffix predicate, "
       "p is in the list the discovery model computes iff p satisfies the specification of the property statement (file, suffix accepted, "
       "directly in a searched directory, not excluded by path or suffix; searched directories = configured ones, or every directory holding "
       "a source file when none is configured). The pattern built for additional suffixes means 'name ends in the suffix' for all names (proved "
       "about the regex engine); the default expression, regenerated from the source on every run, is characterised by a bounded exhaustive check. "
       "Model tied to LangServer.serve_initialize/_get_source_files by differential execution on generated trees; independent spec+glob as oracle.",
  note="Trusted: Coq kernel, vm_compute, regex translator + engine fidelity run, differential harness, pathlib/os.walk. Glob results are data of the model. "
       "An explicitly empty source_dirs list is outside the domain. No symlinks.",
  technique="Rocq proof (list program = declarative specification; regex search lemma) + model/implementation differential on generated directory trees",
  design="4/C18"),
 "C08": dict(
  text="Coq theorems (C08/Props.v): lockstep simulation between the two-stack conditional machine transcribed from preprocess_file and a "
       "frame-stack reference preprocessor, for every well-formed directive sequence of any length and nesting depth and every initial macro "
       "table: a text line lies in a skip region iff the reference finds it inactive; #define/#undef take effect on exactly the reference's "
       "active lines; final macro tables are equal; no region is left open. Conditions are trees with C semantics. The machine model is tied to "
       "preprocess_file by differential execution (exhaustive small scope + random). Macro uses: for every classification of word characters, every "
       "table and every line written as words and separators, the substitution scan replaces exactly the words found in the table by their values, "
       "character for character, and leaves a line that does not spell the name as a word of its own unchanged (C08/Expand.v: one macro for an object-like "
       "macro, parameter/argument pairs for the body of a function-like one); the arguments of a call -- any number, nested parentheses/brackets and "
       "literals with commas inside -- are read back exactly and the call becomes the body with the parameters replaced, followed by the rest of the "
       "line (C08/Args.v); both run against preprocess_file on every run. The indexing of declarations per region is checked against a reference preprocessor.",
  note="Trusted: Coq kernel, vm_compute, differential harness, reference preprocessor. Hypotheses: well-formed conditional structure "
       "(refuted without it), names used as values have integer bodies, no redefinition. Condition text rewriting and the "
       "search for the macro name in front of a call are not modelled in Coq (differential only); the whole-word substitution and the argument scan are (C08/Expand.v, C08/Args.v; ASCII word characters in the differential).",
  technique="Rocq proof (simulation/refinement between two state machines, invariant by induction over directive sequences) + exhaustive small-scope differential",
  design="4/C08"),
 "C17": dict(
  text="Coq obligations (C17/Props.v) over the complete, alias-aware call inventory of the package, regenerated from the source on every run: "
       "no call to eval/exec/compile/__import__/os.system/pickle/...; process and network calls only in the self-update (constant argv, behind "
       "disable_autoupdate); writing sinks only the debug log (two maintenance scripts are proved unreferenced); no unknown dynamic callee; the "
       "#if evaluator interprets only constants, boolean/arithmetic operators and comparisons. The *absence of effects* is runtime behaviour: "
       "it is monitored with CPython audit hooks and directory snapshots on adversarial workspaces (testing, not proof).",
  note="Partial by nature: a Gallina model cannot exhibit 'the interpreter ran attacker-chosen code'. Trusted: translator (fail closed), "
       "audit events, third-party libraries. Method calls are classified by name.",
  technique="Rocq-checked obligations over a call inventory regenerated by a translator + audit-hook monitoring",
  design="4/C17"),
 "C03": dict(
  text="Coq theorem (C03/Props.v): the open-construct machine of FortranAST as driven by FortranFile.parse (every dereference of "
       "current_scope and every stack pop is a possible Crash of the model) never crashes on ANY sequence of classified lines, keeps its "
       "stack invariant, and close_file always ends with nothing open. The model is trace-validated: the implementation's own classification of "
       "each logical line is recorded and replayed (scope objects, lines, parents, end errors compared). Totality of the text-level readers, the "
       "preprocessor and the time bound are exercised on prefixes/mutants of all sample sources (parse and the didOpen/didChange path), not proved; "
       "for long runs of equal lines the number of line fetches must stay linear in the length (deterministic count); after one-line edits that "
       "comment a line out or in again the outline must be that of a fresh server on the client's text.",
  note="Partial. Trusted: Coq kernel, vm_compute, recording wrappers, harness. Not modelled: statement readers, regex running time, wall time.",
  technique="Rocq proof (safety invariant of a stack machine for all token streams) + trace validation + mutation-based crash oracle",
  design="4/C03"),
 "C04": dict(
  text="Coq theorems (C04/Props.v): parser o printer = identity on scope records -- for every well-formed file (any number of units, any nesting of "
       "procedures, types, interfaces and BLOCK/DO/IF/WHERE/ASSOCIATE/ENUM constructs, each closed by its own END word or an allowed bare END) the scope "
       "machine creates exactly the expected objects (kind, name, line of the opening statement, line of END, enclosing object), leaves nothing open and "
       "records no error; the same for any construct nested in any reachable state; workspace/symbol = stable name-sort of the substring filter "
       "(permutation + sortedness). The machine is the trace-validated model of C03; here the scope objects the implementation builds for generated "
       "programs are compared with the theorem's records, documentSymbol with the handler model, and both with the generator's ground truth.",
  note="Trusted: Coq kernel, vm_compute, recording wrappers, generator. Fragment: no SELECT regions / labelled DO / GENERIC / MODULE PROCEDURE in the theorem "
       "(trace validation only). END-word recognition on the generated regexes is a bounded check.",
  technique="Rocq proof (structural induction on program trees over a stack machine; sort/filter specification) + differential on generated programs",
  design="4/C04"),
 "C20": dict(
  text="Coq theorems (C20/Props.v), each for every finite object graph (cyclic or not) and every start node: the guarded pointer walk behind "
       "get_ancestors / get_overridden / is_linked_from (the guard in front of every link_obj delegation) and the USE-tree recursion with its "
       "current-path cut finish with fuel N+1 (N objects), i.e. never hit the recursion limit; parent pointers built by the parser always point to an "
       "earlier object for every file (so host walks need no guard). The walks are tied to the code by extracting the pointer graphs from the "
       "implementation's objects and running the real methods against the model. INCLUDE resolution is modelled as a rewriting system on the scope "
       "graph (parent links and children lists): every sequence of attach operations guarded by ast.encloses and of detach operations keeps both link "
       "kinds acyclic, the guard itself answers within N*(D+1)+2 steps, and on the result the unguarded walks (host climbing, update_fqsn) end; the unguarded "
       "version is refuted by a witness (a procedure made its own child). ast.encloses is run on the real scope objects against the model. The catalogue (21 "
       "cycle kinds x lengths x all identifiers x 8 methods, every file of an INCLUDE cycle saved again) must answer with results, quickly.",
  note="Trusted: Coq kernel, vm_compute, graph extraction harness. The walks are modelled by their recursion skeleton. Time is observed, steps are proved.",
  technique="Rocq proof (termination by a pigeonhole measure on duplicate-free visited lists; forest invariant of the scope machine; acyclicity invariant of guarded INCLUDE attachment by induction over operation sequences) + graph-extraction differential + cycle catalogue",
  design="4/C20"),
 "C05": dict(
  text="Coq theorems (C05/Props.v) about a branch-for-branch transcription of get_use_tree/find_in_scope: for ALL programs, whatever is returned "
       "through USE association is a public child of the used module (a PRIVATE entity is never the answer via USE); a local declaration wins; a unit "
       "without USE gets exactly its host's answer; `USE m[, ONLY: ..., local => remote]` of a module that uses nothing resolves as Fortran says. "
       "The full statement is refuted on the faithful model by two vm_compute witnesses, which are replayed on the implementation on every run "
       "(known findings). Re-export chains, shadowing depth and accessibility combinations are covered by the differential: the model and the "
       "generator's Fortran ground truth against textDocument/definition on generated multi-file workspaces. Components through `%`: the member list "
       "a type builds from its EXTENDS chain (own children, then inherited ones not redeclared) is modelled (C05/Inherit.v, validated against "
       "Type.get_children) and the component found for obj%name is proved to be the nearest declaration up the chain, for every type table. Unnamed and "
       "abstract INTERFACE blocks (C05/Blocks.v): whatever a search from outside the module returns is accessible by the module's default accessibility, "
       "in source order; the pinned rule is refuted by a witness; the model is run on children read back from parsed modules.",
  note="Partial. Trusted: Coq kernel, vm_compute, generator ground truth. Fragment of the main model: variables, modules, a program with a contained procedure; #GEN_INT blocks and % chains "
       "have models of their own; INCLUDE, IMPORT and submodules are catalogue-only. Known findings: C05:rename-lost-diamond, C05:private-reexport, "
       "C05:private-use-associated, C05:use-rename-remote-name, C05:argument-keyword.",
  technique="Rocq proof over a transcription of the resolution functions (accessibility invariant for all programs; fragment correctness; refutation witnesses) + differential with generated ground truth + annotated catalogue (%-chains through EXTENDS, submodules, type-bound) re-queried after saves",
  design="4/C05"),
 "C06": dict(
  text="Coq theorems (C06/Props.v): for every line and every name of identifier characters the occurrence scan finds (a,b) iff [a,b) is a whole "
       "identifier equal to the name up to letter case (every one, nothing else, each spanning exactly the identifier); the spans are ascending and "
       "disjoint, also for the NAME_REGEX the code compiles (template regenerated from the source; generic finditer lemma), and the generated pattern "
       "agrees with the direct scan on a bounded exhaustive domain. Which candidate binds to the entity is re-resolved per hit (C05); that part, "
       "references from every occurrence, documentHighlight ranges and rename (edits applied, fresh server, references again) are checked against "
       "the generator's ground truth.",
  note="Partial. Trusted: Coq kernel, vm_compute, regex translator + engine fidelity, C05 generator. Binding is differential only.",
  technique="Rocq proof (scan = set of whole-identifier occurrences, both directions; disjointness) over a pattern regenerated by a translator + end-to-end differential incl. applying renames",
  design="4/C06"),
 "C13": dict(
  text="Coq theorems (C13/Props.v): the line list is the same for LF, CRLF and CR renderings of any lines (splitlines o join, all line lists without "
       "breaks); inserting blank lines shifts every later line by exactly the number inserted and leaves earlier ones; appending an ordinary comment to a "
       "statement without literals does not change the text the statement readers see; every statement pattern regenerated from the source either "
       "carries the IGNORECASE flag or contains no cased letter, and for every pattern (any regex of the fragment) matching, searching and finditer "
       "are invariant under case variants of the subject when ignore-case is on. Splitting a statement over `&` continuation lines (with or without a leading `&`, with blank, comment and preprocessor "
       "lines in between) hands the statement readers the same text up to blanks, for any number of pieces (model of get_code_line's forward gathering, "
       "validated against the implementation on every run). Statements joined by `;` -- any number, their literals holding `;`, `!` or the other quote, "
       "a comment behind the last -- are handed on as written (model of strip_strings and of the cut in parse(), run against both on every run; a "
       "refutation witness of the pinned rule, fixed). What the readers make of the text is exercised by a metamorphic oracle: generated programs x random "
       "compositions of the listed transformations, dumps equal modulo the line map.",
  note="Partial. Trusted: Coq kernel, vm_compute, regex translator + engine fidelity, splitlines correspondence. Continuation/`;` handling is metamorphic-differential only.",
  technique="Rocq proof (terminator independence, blank-line shift, comment cut, case invariance of all generated statement patterns) + metamorphic re-layout differential against the server",
  design="4/C13"),
 "C14": dict(
  text="Coq theorems (C14/Props.v): detect_fixed is true iff no examined (non-preprocessor) line votes free (exact characterisation, all inputs); "
       "every program printed by the fixed-form printer (column-1 comment flags C c * ! d D, 5-column label field, continuation mark in column 6, "
       "statements from column 7) is classified fixed for all statement texts under stated well-formedness; every free-form rendering with a statement "
       "indented by 1..4 blanks, a trailing `&` or an early declaration is classified free; a DO nest of any depth sharing a terminal label is closed "
       "completely; fixed-form continuation gathering (any marks; comment lines flagged in column 1 or by an indented `!`, and blank lines in between; trailing comments "
       "on the lines that are continued) hands the statement readers the statement up to blanks, "
       "which is the text the free-form twin yields (same statement cut at the same places, any number of pieces; models of both branches of get_code_line "
       "validated against the implementation); the direct character tests agree with the regenerated patterns on an exhaustive bounded domain; two refutation witnesses (known "
       "findings). The model is validated against detect_fixed_format on every run; understanding (entities, nesting, diagnostics) is compared between "
       "the .f and .f90 renderings of generated programs.",
  note="Partial. Trusted: Coq kernel, vm_compute, hand model + differential (gathered lines compared one by one), regex translator. Lines with character literals are outside the gathering model.",
  technique="Rocq proof (characterisation of the form detector, printer recognised / free never fixed for all programs, labelled-DO stack) over a hand model validated differentially + paired fixed/free rendering differential",
  design="4/C14"),
 "C09": dict(
  text="Coq theorems (C09/Props.v): for every line and word the word search returns a span of the line that spells the word; every match of every "
       "compiled pattern lies in the line searched; the continuation-line search reports a gathered line and a span inside it; locations built by "
       "_create_ref_link and Diagnostic.build lie in the document for every object, hit or miss, given that gathered lines are views of document "
       "lines (checked on the implementation on every run); range_json keeps order; a refutation witness for its falsy-zero rule (unreachable at the "
       "pinned call sites). Totality of the nine positional handlers and validity of every range in results and diagnostics are established by a "
       "sweep: hostile texts (incl. preprocessed documents whose expansions are longer than the source) at all positions, generated programs, mutants and the "
       "sample sources at sampled positions inside and outside the text, a history phase (unsaved edits, deleted files, in-place edits between reference scans).",
  note="Partial. Trusted: Coq kernel, vm_compute, regex translator, sweep harness. Handler totality is sweep-level, not a theorem.",
  technique="Rocq proof (word search / continuation search / link and diagnostic ranges valid for all documents) over a hand model validated differentially + exhaustive-position request sweep with range validation",
  design="4/C09"),
 "C07": dict(
  text="Coq theorems (C07/Props.v): every well-formed file of any nesting depth leaves no END error; a bare END reached while a block construct is open adds, "
       "from every reachable state, exactly one entry naming the END line on the construct; 'declared twice' is reported exactly on a declaration that follows "
       "a same-named one on a later line and never when names are distinct; 'procedure before CONTAINS', 'USE after IMPLICIT', 'IMPORT outside interface', "
       "'module not found' characterised exactly (the two ordering rules compare line numbers strictly, so statements joined by `;` are not reported); the complete invalid-parent table (procedure in a type or block construct, type in a type, ...), lifted to whole program trees: "
       "a well-formed file that respects the nesting rules has neither END errors nor invalid parents at any depth, and a misplaced construct is reported "
       "on its opening line wherever it stands; a refutation witness of the pinned rule for a type in a BLOCK (fixed). The transcribed rules are validated per scope against the implementation's own "
       "check_* on every run. Silence on valid programs and presence/severity/line/no-unrelated-error for all 15 documented defect classes are checked by "
       "fault seeding into generated programs.",
  note="Partial. Trusted: Coq kernel, vm_compute, per-scope trace validation, the program generator and seeders. INTENT/dummy/type-accessibility/deferred classes are differential only.",
  technique="Rocq proof (exact characterisation of the diagnostic decision rules for all scopes; structural classes from the scope machine) over transcriptions validated against the implementation's check_* + differential fault seeding of all 15 defect classes",
  design="4/C07"),
 "C10": dict(
  text="Coq theorems (C10/Props.v): for every history of open/save/close, buffer changes, writes behind the server's back, creations and delete+close events "
       "the workspace index keeps the invariant 'object tree = union of the unit names of the current buffers, each owned by its file'; once every known "
       "document is saved and every file of the directory is known, the index (text each file was parsed from, owner of each top-level name) equals that of "
       "a server freshly started on the final directory, provided unit names never collide (H1); after any change the next save re-reads the disk. A "
       "refutation witness without H1 (name collision prunes another file's unit; known finding). The model is validated against the server after every "
       "event of generated histories; cross-file links, type layouts, completion, hover, references and diagnostics are compared by an identical query "
       "battery on the long-lived and a fresh server, over generated, directed and scripted literal histories (single-line edits, discarded edits, "
       "three-level EXTENDS over three files, emptied INCLUDE, deleted parent module).",
  note="Partial. Trusted: Coq kernel, vm_compute, trace validation, generator/battery. Link-level state is battery-only.",
  technique="Rocq proof (index invariant by induction over histories; quiescent = fresh refinement) over a hand model trace-validated after every event + long-lived vs fresh server query-battery differential",
  design="4/C10"),
 "C15": dict(
  text="Coq theorems (C15/Props.v, over the C10 workspace model): for unique unit names, any two enumerations of the same set of files (any order, repetitions) "
       "give the same merged index, which is also what opening the files one by one on an empty server gives; that index is characterised exactly (each listed "
       "file parsed from its disk text, each unit owned by its file); a refutation witness without the uniqueness premise. Worker count, hash seed and the "
       "runtime (process pool, pickling) are exercised by a schedule sweep: permutations of the directory listing x worker counts up to 16 x hash seeds and "
       "one-by-one opening orders, identical query battery compared with a reference schedule, on eleven workspaces (EXTENDS, submodules, INCLUDE, "
       "preprocessed files sharing headers, a header in several include directories, ...).",
  note="Partial. Trusted: Coq kernel, vm_compute, the C10 model (trace-validated), the schedule runner. OS scheduling and pickling are not modelled.",
  technique="Rocq proof (permutation invariance and exact characterisation of the start-up merge) over the trace-validated C10 model + schedule sweep differential (listing order, workers, hash seed, one-by-one opening)",
  design="4/C15"),
 "C12": dict(
  text="Coq theorems (C12/Props.v, over a transcription of get_candidates and the C05 resolution model): the prefix filter is exact (offered iff candidate "
       "and begins with the prefix, case-insensitively); for every program a candidate that comes through USE is a public child of its module (PRIVATE "
       "respected) and, under an ONLY list, one of the listed names; every name offered through a rename-free USE dictionary resolves under find_in_scope's "
       "USE search and, conversely, every name that search resolves to an entity is offered from that module (for rename-free dictionaries completion "
       "through USE and go-to-definition agree exactly); USE statements whose ONLY lists share nothing with the list in force import nothing, for any "
       "number of statements. The transcription is compared with textDocument/completion on generated "
       "workspaces; the property oracle is the generator's ground truth of accessibility; `%` (inherited members), USE, ONLY: and CALL contexts are checked "
       "on an annotated catalogue.",
  note="Partial. Trusted: Coq kernel, vm_compute, C05 generator and resolution model, catalogue. Context classification is catalogue-only.",
  technique="Rocq proof (prefix filter exact; PRIVATE/ONLY respected for all programs; offered names resolve) over a transcription validated differentially + ground-truth differential on generated workspaces + context catalogue",
  design="4/C12"),
 "C11": dict(
  text="Coq theorems (C11/Props.v): for every sequence of documentation blocks and entity creations no block is shown on two entities; a `!>` block documents the "
       "next entity, a `!<`/`!!` block the last one, nothing else changes; the active parameter of signature help is the argument index when no `keyword=` is "
       "involved, the named parameter under `keyword=`, and the slot after it for the next positional argument; a comparison `a == b` is never read "
       "as a keyword, whatever the parameters are called; the value of a named constant is read back whole (up to blanks) for every well-formed value "
       "-- balanced parentheses and brackets, no comma or `!` outside them -- whatever follows it, also behind the shape of an array constant (model of "
       "read_parameter_value, run against the function itself); the entities of a declaration -- any number, with array specifications, constructors and "
       "initialisations, commas only inside parentheses/brackets -- are read back one by one, in order, without the blanks around them (model of "
       "separate_def_list, run against the function itself); the argument index itself is derived from the raw line: behind any text and an opening "
       "parenthesis, with any arguments written so far (literals holding commas/parentheses/the other quote, nested calls, sections and constructors "
       "with commas of their own), the backward walk of get_paren_level followed by strip_strings and the comma count gives the number of arguments "
       "written minus one (C11/Level.v, run against both functions); the selector of a declaration is read up to its closing parenthesis for every "
       "text between the parentheses -- nested parentheses, literals holding parentheses and the other quote character -- with a refutation of the "
       "pinned rule, fixed (C11/ParenMatch.v, run against find_paren_match). The models are validated against the "
       "implementation (recorded add_doc/add_scope/add_variable events; activeParameter of serve_signature). Restating type, selector, attributes, name, "
       "PARAMETER value, documentation, argument order and per-argument declarations is checked by an oracle on generated modules.",
  note="Partial. Trusted: Coq kernel, vm_compute, trace validation, the generator and the normalising comparison. Declaration readers/renderers are oracle-only.",
  technique="Rocq proof (documentation attached to exactly one entity; active-parameter rule) over hand models trace-validated against the implementation + generated-declaration hover/signature oracle",
  design="4/C11"),
}
NOT_YET = "not yet built in this round; see DESIGN.md section 8 (build order)"

def main():
    checks = []
    for pid in ALL:
        if pid not in CHECKS: continue
        c = CHECKS[pid]
        checks.append({
          "property_id": pid,
          "quick_cmd": "./check %s --tier quick" % pid,
          "thorough_cmd": "./check %s --tier thorough" % pid,
          "evidence_file": "/verif/evidence/%s.json" % pid,
          "replay_cmd_template": "./check %s --replay {path}" % pid,
          "engine": "coq+harness",
          "level_claimed": {"category": "proof", "text": c["text"], "design_ref": "9.1 (as built), " + c["design"] + " (plan)"},
          "level_note": c["note"],
          "technique": c["technique"],
        })
    m = {
      "version": 1,
      "setup_cmd": "./setup.sh",
      "hooks": {"guard": "FORTLS_VERIF", "enable": "none needed: the harness drives public classes in-process (PYTHONPATH=/repo) and wraps objects in its own process",
                "baseline_off_cmd": "cd /repo && /venv/bin/python -m pytest -ra -q -p no:cacheprovider --timeout=900 --continue-on-collection-errors",
                "source_commits": [], "add_only": True},
      "engines": [{"name": "coq+harness", "path": "/verif/check", "serves_properties": sorted(CHECKS),
                   "kind_free_text": "Coq 8.16 development under /verif/coq (models, theorems) + Python harness (translators, differential correspondence, oracles)"}],
      "checks": checks,
      "not_applicable": [{"property_id": p, "reason": NOT_YET} for p in ALL if p not in CHECKS],
      "notes": "See DESIGN.md. Known findings: known_findings.json. Seeded changes: seeded/.",
    }
    with open(os.path.join(HERE, "MANIFEST.json"), "w") as f:
        json.dump(m, f, indent=1)
main()
