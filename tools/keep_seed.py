#!/usr/bin/env python3
"""keep_seed.py <tmp seed dir> <seed id> <property> <caught: yes|no|after-strengthening> <caught_by text> -- copies into /verif/seeded/<id>/"""
import json, os, shutil, sys
src, sid, prop, caught, by = sys.argv[1:6]
dst = os.path.join("/verif/seeded", sid)
os.makedirs(dst, exist_ok=True)
for f in ("patch.diff", "demo.py", "notes.md"):
    if os.path.exists(os.path.join(src, f)):
        shutil.copy(os.path.join(src, f), dst)
notes = open(os.path.join(src, "notes.md")).read() if os.path.exists(os.path.join(src, "notes.md")) else ""
meta = {
 "id": sid, "property": prop,
 "origin": "written by an independent sub-agent that saw only the property text and its own scratch worktree",
 "needs_to_manifest": notes.strip(),
 "confirmed": ["demo.py exits 0 on the unmodified tree (PYTHONPATH=/repo)", "demo.py exits non-zero with patch.diff applied",
               "pinned test-suite (tools/baseline.sh in a scratch worktree with the patch): 179 passed, only test_version_update_pypi fails as on the baseline"],
 "ran": "tools/try_seed.sh <dir> %s <worktree>  (git -C /repo apply patch.diff; ./check %s --tier quick; git -C /repo checkout -- .)" % (prop, prop),
 "detected_by_quick_check": caught, "detected_by": by,
}
json.dump(meta, open(os.path.join(dst, "meta.json"), "w"), indent=1)
print("kept", dst)
