#!/bin/bash
# every kept seed carries an independent demo that must exit 0 on the unmodified tree: a regression suite for the repairs made in /repo
# usage: run_demos.sh [tree]   (default /repo); prints the demos that fail, then a count
T=${1:-/repo}
ls -d /verif/seeded/*/ | xargs -P 8 -I{} sh -c "cd /tmp && PYTHONPATH=$T timeout 120 /venv/bin/python {}demo.py > /dev/null 2>&1; rc=\$?; [ \$rc -ne 0 ] && echo \"{} rc=\$rc\"; true" | sort
echo "demos run: $(ls -d /verif/seeded/*/ | wc -l)"
