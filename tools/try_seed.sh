#!/bin/bash
# usage: try_seed.sh <seed dir with patch.diff + demo.py> <prop> [worktree for test-suite confirmation]
# 1. demo on clean /repo must pass; 2. patch applies; demo must fail; 3. run the quick check; 4. undo.
S=$1; P=$2; WT=$3
cd /repo || exit 9
git diff --quiet || { echo "REPO DIRTY"; exit 9; }
PYTHONPATH=/repo /venv/bin/python $S/demo.py >/tmp/demo_clean.log 2>&1; echo "demo on clean tree: exit $?"
git apply $S/patch.diff || { echo "PATCH DOES NOT APPLY"; exit 8; }
PYTHONPATH=/repo /venv/bin/python $S/demo.py >/tmp/demo_patched.log 2>&1; echo "demo on patched tree: exit $? ($(tail -1 /tmp/demo_patched.log | cut -c1-150))"
cd /verif && ./check $P --tier quick 2>&1 | grep -E "^VIOLATION|KNOWN|done:|MACHINERY" | head -6
git -C /repo checkout -- .
(cd /verif && ./check $P --tier quick >/dev/null 2>&1; echo "evidence restored on the clean tree: rc=$?")
git -C /repo status --short | head -3
if [ -n "$WT" ]; then
  git -C $WT checkout -q --detach $(git -C /repo rev-parse HEAD) && git -C $WT apply $S/patch.diff && /verif/tools/baseline.sh $WT
  git -C $WT checkout -- . ; git -C $WT clean -fdq
fi
