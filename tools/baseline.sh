#!/bin/sh
# runs the pinned baseline suite of /repo and prints pass/fail counts (expected: 179 passed, 1 failed = test_version_update_pypi)
X=$(mktemp /tmp/junit.XXXXXX.xml)
# test_recursion_error_handling indexes the whole temp directory: give the suite a private, empty one
T=$(mktemp -d /tmp/baseline_tmp.XXXXXX)
cd ${1:-/repo} && TMPDIR=$T /venv/bin/python -m pytest -ra -q -p no:cacheprovider --timeout=900 --continue-on-collection-errors --junitxml=$X >/dev/null 2>&1
python3 - "$X" <<'PY'
import sys, xml.etree.ElementTree as ET
r = ET.parse(sys.argv[1]).getroot()
bad = []
n = 0
for tc in r.iter("testcase"):
    n += 1
    if tc.find("failure") is not None or tc.find("error") is not None:
        bad.append(tc.get("classname") + "::" + tc.get("name"))
print("tests=%d passed=%d failed=%s" % (n, n - len(bad), bad))
PY
rm -f $X; rm -rf $T
