#!/bin/bash
# every registered thorough check, P at a time; one line per check into $1 (default /tmp/thorough_par.log)
LOG=${1:-/tmp/thorough_par.log}; P=${2:-4}
cd /verif; : > $LOG
python3 -c "import json; print('\n'.join(c['property_id'] for c in json.load(open('MANIFEST.json'))['checks']))" | \
xargs -P $P -I{} sh -c "s=\$(date +%s); out=\$(VERIF_TIME_LIMIT=5400 ./check {} --tier thorough 2>&1); rc=\$?; echo \"{} rc=\$rc \$(( \$(date +%s) - s ))s \$(echo \"\$out\" | grep -c '^VIOLATION') violations; \$(echo \"\$out\" | grep 'done:' | tail -1 | cut -c1-160)\" >> $LOG"
echo finished >> $LOG
