#!/bin/bash
# runs every registered quick (or $1=thorough) check on the current tree, sequentially; prints one line per check
T=${1:-quick}
cd /verif
for p in $(python3 -c "import json; print(' '.join(c['property_id'] for c in json.load(open('MANIFEST.json'))['checks']))"); do
  s=$(date +%s)
  out=$(./check $p --tier $T 2>&1); rc=$?
  echo "$p rc=$rc $(( $(date +%s) - s ))s $(echo "$out" | grep -c '^VIOLATION') violations; $(echo "$out" | grep 'done:' | tail -1 | cut -c1-150)"
done
