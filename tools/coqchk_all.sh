#!/bin/bash
# independent re-check of every compiled library of the development with coqchk -o (3 at a time, ~1 min each);
# prints one line per library: name, exit code, and the axioms line of its context summary
cd /verif/coq || exit 2
OUT=${1:-/verif/.work/coqchk}; mkdir -p $OUT; rm -f $OUT/*.log
ls theories/C*/Props.vo theories/Shared/*.vo theories/Base/*.vo theories/Gen/*.vo | sed "s|theories/|FV.|; s|/|.|; s|\.vo||" | \
  xargs -P 3 -I{} sh -c "timeout 1500 coqchk -silent -o -Q theories FV {} > $OUT/{}.log 2>&1; echo \"{} rc=\$? \$(grep -A1 'Axioms' $OUT/{}.log | tr -d '\n' | cut -c1-120)\""
