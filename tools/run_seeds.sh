#!/bin/bash
# usage: run_seeds.sh "1 2 3" [parallel]  -- every registered quick check under each VERIF_SEED; prints checks that alarm or crash
SEEDS=${1:-"1 2 3"}; P=${2:-4}
cd /verif
for s in $SEEDS; do
  python3 -c "import json; print('\n'.join(c['property_id'] for c in json.load(open('MANIFEST.json'))['checks']))" | \
  xargs -P $P -I{} sh -c "out=\$(VERIF_SEED=$s ./check {} --tier quick 2>&1); rc=\$?; v=\$(echo \"\$out\" | grep -c '^VIOLATION'); [ \$rc -ne 0 -o \$v -ne 0 ] && echo \"seed=$s {} rc=\$rc violations=\$v: \$(echo \"\$out\" | grep -E 'VIOLATION|MACHINERY|Error' | head -2 | cut -c1-200)\"; true"
  echo "seed $s done"
done
